#!/bin/sh
# Idempotent, offline. Builds the overlay venv /verif/.venv:
#   * python = /venv/bin/python (3.12, has rdkit/pandas/synrbl deps)
#   * .pth adds /venv's site-packages and /repo (working tree, so edits are seen)
#   * crosshair-tool, z3-solver, cvc5 from the offline wheelhouse
set -e
V=/verif/.venv
W=/opt/veriftools/wheels
if [ ! -x "$V/bin/python" ]; then
  /venv/bin/python -m venv "$V"
fi
SP=$("$V/bin/python" -c 'import sysconfig;print(sysconfig.get_paths()["purelib"])')
printf '%s\n%s\n' /venv/lib/python3.12/site-packages /repo > "$SP/_overlay.pth"
if ! "$V/bin/python" -c 'import crosshair, z3' >/dev/null 2>&1; then
  PIP_NO_INDEX=1 "$V/bin/python" -m pip install -q --no-index --find-links "$W" crosshair-tool z3-solver
fi
if ! "$V/bin/python" -c 'import cvc5' >/dev/null 2>&1; then
  PIP_NO_INDEX=1 "$V/bin/python" -m pip install -q --no-index --find-links "$W" cvc5 || true
fi
"$V/bin/python" -c 'import crosshair, z3, synrbl, rdkit' 
mkdir -p /verif/.work /verif/evidence
