#!/usr/bin/env python3
"""Regenerates /verif/MANIFEST.json from the table below (kept in one place)."""
import json, os, sys

ROOT = os.path.dirname(os.path.dirname(os.path.abspath(__file__)))

CLAIMS = {
    "C07": dict(
        technique="bounded symbolic execution of the real accounting kernels (CrossHair + z3), path-exhaustive per partition",
        text="Every kernel behind the composition/charge accounting (decompose over the whole periodic table with a fake molecule, compare_dicts, diff_dicts, enforce_product_side + side selection, carbon label with its cache, is_carbon_balanced) is executed symbolically with unbounded integer counts and symbolic key presence and compared with a vector reference; each partition is explored to path exhaustion, so inside the stated key/atom bounds the verdict holds for every integer value.",
        note="Assumes RDKit's AddHs/mixture additivity contract (fake molecule), CrossHair's exhaustion claim and z3. Key sets of 3-4 elements + charge; 1-3 atoms for decompose.",
        ref="3/C07",
    ),
    "C08": dict(
        engine="xh+smt",
        technique="inductive step of the rule matcher by bounded symbolic execution (CrossHair + z3) per shipped rule; z3 regex inclusion for the ban pattern",
        text="One solver query per record of both shipped rule files shows that apply_rule, from an arbitrary well-formed state with unbounded integers, either refuses a rule that does not fit or subtracts exactly ratio x composition with ratio >= 1 (charge included) without mutating its inputs; with the exit condition and the constructor invariant this gives by induction that every accepted completion sums to the imbalance, for any search depth. Selection functions, single_impute side selection and a bounded whole-search cross-check (real dfs/match on a 4-rule sub-database) close the gap to what is appended; the ban regex is translated from the source literals and shown by z3 to catch every database dihalogen; database records are re-decomposed with real RDKit.",
        note="Induction argument over the DFS path is ours (cross-checked on the bounded whole search); MolFromSmiles stubs; table check of the 68 records is concrete, not a solver result.",
        ref="3/C08",
    ),
    "C13": dict(
        technique="bounded symbolic execution of ConfidencePredictor.predict with symbolic real confidences and thresholds (CrossHair + z3)",
        text="The real predict() runs on row layouts mixing all methods with solver-chosen confidences c and thresholds t1<=t2 in [0,1]: reported confidence = c for both thresholds, solved iff c >= t (the boundary c = t is a solver case, not a sample), demoted rows get an issue naming the threshold, every other row is bit-identical, confident_cnt = rows kept, monotone in t. Path-exhaustive per layout.",
        note="Feature extraction, pandas, numpy.round and the xgboost model are stubs returning an arbitrary number per MCS row; floats are modelled as reals.",
        ref="3/C13",
    ),
    "C19": dict(
        technique="one inductive step from an arbitrary invariant-satisfying database by bounded symbolic execution (CrossHair + z3); base case concrete",
        text="add_entry / add_entries / remove_entry of the real RuleImputeManager are executed from every pre-state shape of <= 2 (thorough 3) records satisfying the invariant, with solver-chosen arguments and symbolic per-token composition: the invariant is preserved, rejected adds leave the database unchanged and are reported, remove deletes only the named record. One step from an arbitrary state covers histories of any length. The shipped files are checked against the invariant concretely (known finding: duplicates in the shipped manual database).",
        note="MolFromSmiles/decompose stubbed by a symbolic world; string identity of SMILES (the manager's own notion of duplicate).",
        ref="3/C19",
    ),
}

NOT_APPLICABLE = {
    "C09": "the claim is RDKit graph editing + sanitisation + canonicalisation (merge reconstructs the cut molecule); stubbing those calls removes exactly what is claimed and there is no SMT model of RDKit (DESIGN.md 4)",
    "C16": "labelled-graph matcher: no arithmetic for a solver, symbolic execution degenerates into one path per graph (4-atom probe not exhausted in 300 s); a direct SMT encoding would be a re-implementation (DESIGN.md 4)",
}

PENDING = "check under construction in this round; not claimed until it is conclusive on the unchanged tree"


def main():
    props = [json.loads(l) for l in open(os.path.join(ROOT, "properties.jsonl"))]
    checks = []
    na = []
    for p in props:
        pid = p["id"]
        if pid in CLAIMS:
            c = CLAIMS[pid]
            checks.append({
                "property_id": pid,
                "quick_cmd": "bin/check %s --tier quick" % pid,
                "thorough_cmd": "bin/check %s --tier thorough" % pid,
                "evidence_file": "/verif/evidence/%s.json" % pid,
                "replay_cmd_template": "bin/check %s --replay {path}" % pid,
                "engine": c.get("engine", "xh"),
                "level_claimed": {"category": "other", "text": c["text"], "design_ref": "DESIGN.md " + c["ref"]},
                "level_note": c["note"],
                "technique": c["technique"],
            })
        else:
            na.append({"property_id": pid, "reason": NOT_APPLICABLE.get(pid, PENDING)})
    m = {
        "version": 1,
        "setup_cmd": "sh bin/setup.sh",
        "hooks": {
            "guard": "SYNRBL_VERIF",
            "enable": "no hooks: every patch point is a module attribute rebound by the harness process; /repo is imported from its working tree",
            "baseline_off_cmd": "cd /repo && /venv/bin/python -m pytest -ra -q -p no:cacheprovider --timeout=900 --continue-on-collection-errors",
            "source_commits": [],
            "add_only": True,
        },
        "engines": [
            {"name": "xh", "path": "vf/engine_xh.py", "serves_properties": sorted(k for k, v in CLAIMS.items() if v.get("engine", "xh") in ("xh", "xh+smt")),
             "kind_free_text": "symbolic execution of the real Python functions with CrossHair 0.0.110 + z3 5.1.0, partitions on a 16-process pool, verdict = path exhaustion"},
            {"name": "smt", "path": "vf/engine_smt.py", "serves_properties": sorted(k for k, v in CLAIMS.items() if v.get("engine") in ("smt", "xh+smt")),
             "kind_free_text": "z3 queries generated from the current source (regex literals via re._parser, sort-key lambda, tables), cvc5 cross-check on thorough"},
        ],
        "checks": checks,
        "not_applicable": na,
        "notes": "Solver-based checking of the real code. Known findings: known_findings.txt. Exit 3 = harness error (never a violation).",
    }
    with open(os.path.join(ROOT, "MANIFEST.json"), "w") as f:
        json.dump(m, f, indent=1)
    print("claims:", len(checks), "n/a:", len(na))


if __name__ == "__main__":
    main()
