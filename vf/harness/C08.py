"""C08 -- rule completions add up exactly to the imbalance (DESIGN.md 3/C08)."""
from __future__ import annotations

import ast
import gzip
import inspect
import json
import os
import time

from vf.engine_xh import Part
from vf.world import chem as W
from vf import engine_smt as S

import rdkit.Chem as RealChem
import synrbl.SynRuleImputer.synthetic_rule_matcher as _m
import synrbl.SynRuleImputer.synthetic_rule_imputer as _imp
import synrbl.SynUtils.chem_utils as _cu
from synrbl.SynRuleImputer.synthetic_rule_matcher import SyntheticRuleMatcher
from synrbl.SynRuleImputer.synthetic_rule_imputer import SyntheticRuleImputer
from synrbl.SynProcessor.rsmi_decomposer import RSMIDecomposer

PART = {}
H = "vf.harness.C08:"

ENCODES = [
    "synrbl.SynRuleImputer.synthetic_rule_matcher:SyntheticRuleMatcher.apply_rule",
    "synrbl.SynRuleImputer.synthetic_rule_matcher:SyntheticRuleMatcher.can_match",
    "synrbl.SynRuleImputer.synthetic_rule_matcher:SyntheticRuleMatcher.exit_strategy_solution",
    "synrbl.SynRuleImputer.synthetic_rule_matcher:SyntheticRuleMatcher.__init__",
    "synrbl.SynRuleImputer.synthetic_rule_matcher:SyntheticRuleMatcher.dfs",
    "synrbl.SynRuleImputer.synthetic_rule_matcher:SyntheticRuleMatcher.match",
    "synrbl.SynRuleImputer.synthetic_rule_matcher:SyntheticRuleMatcher.rank_solutions",
    "synrbl.SynRuleImputer.synthetic_rule_matcher:SyntheticRuleMatcher.remove_overlapping_solutions",
    "synrbl.SynUtils.data_utils:find_shortest_sublists",
    "synrbl.SynUtils.chem_utils:calculate_net_charge",
    "synrbl.SynRuleImputer.synthetic_rule_imputer:SyntheticRuleImputer.single_impute",
    "synrbl.SynRuleImputer.synthetic_rule_constraint:RuleConstraint.fit",
    "synrbl.SynRuleImputer.synthetic_rule_constraint:RuleConstraint.reduction_oxidation_rules_modify",
    "synrbl.SynRuleImputer.synthetic_rule_constraint:RuleConstraint.remove_banned_reactions",
    "synrbl.SynRuleImputer.synthetic_rule_imputer:SyntheticRuleImputer.get_and_validate_smiles",
    "synrbl.SynRuleImputer.synthetic_rule_constraint:RuleConstraint.__init__",
    "synrbl.rule_based:RuleBasedMethod.run",
]
EXPLANATION = (
    "Inductive step of the rule matcher proved per shipped rule by symbolic execution of the real apply_rule "
    "(arbitrary well-formed state with unbounded integers, CrossHair+z3, path-exhaustive), exit condition, "
    "constructor invariant, selection functions, a bounded whole-search cross-check of the real dfs/match on a "
    "4-rule sub-database, single_impute side selection; ban-pattern regex inclusion by z3 from the literals in "
    "rule_based.run; database records re-decomposed with real RDKit (finite table check, reported as such)."
)
BOUNDS = [
    "apply_rule step: one query per record of both shipped rule files; state = the rule's own elements + one frame element with symbolic presence, unbounded non-zero integer values, any integer charge",
    "exit/constructor: 2 elements + Q, unbounded integers",
    "selection: <= 3 solutions of lengths 1..2 with symbolic ratios and symbolic atom charges",
    "whole search: sub-database {[H], O, [O], [H+]}, imbalance over {H,O,Q} with counts 0..4 (quick 0..3), charge -2..2",
    "single_impute: same sub-database, counts 0..2",
]
STUBS = [
    "Chem.MolFromSmiles in synthetic_rule_imputer: any '.'-joined list of database SMILES parses (contract: database SMILES are valid; checked concretely in the table check)",
    "Chem.MolFromSmiles in chem_utils.calculate_net_charge: fake molecule with symbolic formal charges",
]
OUTSIDE = [
    "search depth/time of the unbounded DFS on the full 51-rule database (covered by induction: step + exit condition, not by running it)",
    "the odd-atomic-hydrogen filter and marker rewriting of RuleConstraint (pipeline-level, C02/C03/C14)",
]
ASSUMPTIONS = STUBS + ["induction over the DFS path: every accepted completion is a sequence of apply_rule steps from the constructor state to an exit state (checked on the bounded whole-search cross-check)"]

REPO = "/repo"


def _load(path):
    try:
        return json.load(open(path))
    except Exception:
        return json.load(gzip.open(path))


def databases():
    return {
        "manager": _load(os.path.join(REPO, "synrbl/SynRuleImputer/rules_manager.json.gz")),
        "automated": _load(os.path.join(REPO, "Data/Rules/automated_rules.json.gz")),
    }


_DB = None


def db():
    global _DB
    if _DB is None:
        import synrbl.SynProcessor.rsmi_decomposer as _dec

        _dec.Chem = RealChem
        d = databases()
        for name, recs in d.items():
            for r in recs:
                comp = RSMIDecomposer.decompose(r["smiles"])
                comp.setdefault("Q", 0)
                r["_true"] = comp
        _DB = d
    return _DB


FRAME = "Zz"


# ---------------------------------------------------------------- inductive step
def h_step(
    f0: bool, f1: bool, f2: bool, f3: bool, f4: bool, ff: bool,
    v0: int, v1: int, v2: int, v3: int, v4: int, vf: int, q: int, npath: int,
) -> bool:
    """
    pre: 0 <= npath <= 2
    post: _
    """
    rec = db()[PART["db"]][PART["rule"]]
    comp = rec["_true"]
    rule = {"smiles": rec["smiles"], "Composition": dict(comp)}
    elems = [k for k in comp if k != "Q"]
    flags = (f0, f1, f2, f3, f4)
    vals = (v0, v1, v2, v3, v4)
    data = {}
    for i in range(5):
        if i < len(elems):
            if flags[i]:
                if vals[i] == 0:
                    return True
                data[elems[i]] = vals[i]
        elif flags[i]:
            return True
    if ff:
        if vf == 0:
            return True
        data[FRAME] = vf
    data["Q"] = q
    data0 = dict(data)
    path = [{"smiles": "P%d" % i, "Ratio": 1} for i in range(npath)]
    path0 = list(path)
    m = SyntheticRuleMatcher.__new__(SyntheticRuleMatcher)
    new_data, new_path = m.apply_rule(data, path, rule)
    fits = all(data0.get(k, 0) >= comp[k] for k in elems)
    tw = PART.get("twin")
    if tw == "apply":
        return new_data is None
    if tw == "refuse":
        return new_data is not None
    if data != data0 or path != path0:
        return False  # backtracking relies on the inputs not being mutated
    if new_data is None:
        return new_path is None and not fits
    if not fits:
        return False
    if len(new_path) != len(path0) + 1 or new_path[: len(path0)] != path0:
        return False
    step = new_path[-1]
    if step.get("smiles") != rec["smiles"]:
        return False
    ratio = step.get("Ratio")
    if not (ratio >= 1):
        return False
    # new_data = data - ratio * comp, zero element entries removed, Q always kept
    for k in elems:
        exp = data0.get(k, 0) - ratio * comp[k]
        if exp < 0:
            return False
        if exp == 0:
            if k in new_data:
                return False
        elif new_data.get(k) != exp:
            return False
    if "Q" not in new_data or new_data["Q"] != q - ratio * comp["Q"]:
        return False
    if ff:
        if new_data.get(FRAME) != vf:
            return False
    elif FRAME in new_data:
        return False
    for k in new_data:
        if k != "Q" and k != FRAME and k not in elems:
            return False
    # progress: the rule cannot be applied a second time with the same data unless something is left
    return True


# ---------------------------------------------------------------- exit and constructor
def h_exit(a: bool, b: bool, hasq: bool, x: int, y: int, q: int) -> bool:
    """
    post: _
    """
    data = {}
    if a:
        if x == 0:
            return True
        data["C"] = x
    if b:
        if y == 0:
            return True
        data["H"] = y
    data["Q"] = q  # invariant: Q always present (constructor adds it, apply_rule never deletes it)
    r = SyntheticRuleMatcher.exit_strategy_solution(data)
    if PART.get("twin"):
        return not r
    return r == ((not a) and (not b) and q == 0)


def h_init(a: bool, b: bool, hasq: bool, x: int, y: int, q: int) -> bool:
    """
    post: _
    """
    d = {}
    if a:
        d["C"] = x
    if b:
        d["H"] = y
    if hasq:
        d["Q"] = q
    m = SyntheticRuleMatcher([], d, select="all", ranking="ion_priority")
    out = m.data_dict
    if PART.get("twin"):
        return not (len(out) == 3)
    if "Q" not in out or out["Q"] != (q if hasq else 0):
        return False
    for k, f, v in (("C", a, x), ("H", b, y)):
        if f and v != 0:
            if out.get(k) != v:
                return False
        elif k in out:
            return False
    return len(out) == 1 + (1 if a and x != 0 else 0) + (1 if b and y != 0 else 0)


# ---------------------------------------------------------------- selection
class _ChargeChem:
    def __init__(self, charges):
        self.charges = charges

    def MolFromSmiles(self, s, *a, **k):
        if s not in self.charges:
            return None
        return W.FakeMol([W.FakeAtom(0, q=c) for c in self.charges[s]])


def h_select(r0: int, r1: int, r2: int, r3: int, c0: int, c1: int, c2: int) -> bool:
    """
    pre: 1 <= r0 and 1 <= r1 and 1 <= r2 and 1 <= r3
    pre: -3 <= c0 <= 3 and -3 <= c1 <= 3 and -3 <= c2 <= 3
    post: _
    """
    shape = PART["shape"]  # list of lists of token names, e.g. [["a"],["b","c"],["a"]]
    ratios = [r0, r1, r2, r3]
    _cu.Chem = _ChargeChem({"a": [c0], "b": [c1, c2], "c": [0]})
    _m.calculate_net_charge = _cu.calculate_net_charge
    sols = []
    k = 0
    for sol in shape:
        items = []
        for tok in sol:
            items.append({"smiles": tok, "Ratio": ratios[k % 4]})
            k += 1
        sols.append(items)
    sols0 = [list(s) for s in sols]
    uniq = SyntheticRuleMatcher.remove_overlapping_solutions(sols)
    out = SyntheticRuleMatcher.rank_solutions(uniq, "ion_priority")
    if PART.get("twin"):
        return len(out) < 2
    if [list(s) for s in sols] != sols0:
        return False

    def ident_in(x, pool):
        return any(x is y for y in pool)

    # sub-list of the input, no solution invented
    if not all(ident_in(s, sols) for s in uniq) or not all(ident_in(s, uniq) for s in out):
        return False
    # every input solution has an equal (as a set of (smiles, ratio)) representative among uniq
    def key(s):
        return sorted((i["smiles"], i["Ratio"]) for i in s)

    for s in sols:
        if not any(key(s) == key(u) for u in uniq):
            return False
    if len(uniq) == 0:
        return len(out) == 0
    mn = min(len(s) for s in uniq)
    if not all(len(s) == mn for s in out):
        return False
    if len(out) != sum(1 for s in uniq if len(s) == mn):
        return False
    # ion priority: descending total |formal charge| * ratio
    ch = {"a": abs(c0), "b": abs(c1) + abs(c2), "c": 0}
    keys = [sum(ch[i["smiles"]] * i["Ratio"] for i in s) for s in out]
    return all(keys[i] >= keys[i + 1] for i in range(len(keys) - 1))


# ---------------------------------------------------------------- whole search on a sub-database
SUB = [
    {"formula": "H", "smiles": "[H]", "Composition": {"Q": 0, "H": 1}},
    {"formula": "H2O", "smiles": "O", "Composition": {"O": 1, "H": 2, "Q": 0}},
    {"formula": "O", "smiles": "[O]", "Composition": {"O": 1, "Q": 0}},
    {"formula": "H+", "smiles": "[H+]", "Composition": {"Q": 1, "H": 1}},
]
SUBC = {r["smiles"]: r["Composition"] for r in SUB}


class _AnyChem:
    def MolFromSmiles(self, s, *a, **k):
        toks = s.split(".")
        if all(t in SUBC for t in toks):
            return W.FakeMol([W.FakeAtom(1, q=SUBC[t]["Q"]) for t in toks])
        return None


def _sum_solution(sol):
    tot = {}
    for item in sol:
        comp = SUBC.get(item["smiles"])
        if comp is None or not (item["Ratio"] >= 1):
            return None
        for k, v in comp.items():
            tot[k] = tot.get(k, 0) + v * item["Ratio"]
    return tot


def h_match(h: int, o: int, q: int) -> bool:
    """
    pre: 0 <= h <= PART["max"] and 0 <= o <= PART["max"]
    pre: -2 <= q <= 2
    post: _
    """
    _cu.Chem = _AnyChem()
    _m.calculate_net_charge = _cu.calculate_net_charge
    d = {"H": h, "O": o}
    if PART.get("withq", True):
        d["Q"] = q
    elif q != 0:
        return True
    m = SyntheticRuleMatcher([dict(r, Composition=dict(r["Composition"])) for r in SUB], d, select=PART.get("select", "all"), ranking="ion_priority")
    sols = m.match()
    if PART.get("twin"):
        return len(sols) == 0
    for sol in sols:
        tot = _sum_solution(sol)
        if tot is None:
            return False
        if tot.get("H", 0) != h or tot.get("O", 0) != o or tot.get("Q", 0) != q:
            return False
    # (soundness only: the greedy maximal ratio makes the search incomplete, e.g. H2/+1 has the
    #  completion [H].[H+] which is not found; the property does not promise completeness)
    return True


BAN_X = ["", "ClCl", "BrBr", "FF", "II", "[O].[O]"]
_BAN = {}


def setup_part(part):
    # read the ban list out of the source before the analysis starts (ast/inspect are not traced code)
    if "list" not in _BAN:
        _BAN["list"] = list(_ban_list_from_source())



def h_ban_filter(x: int, nh: int, no: int, na: int) -> bool:
    """
    pre: 0 <= x < 6 and 0 <= nh <= 3 and 0 <= no <= 2 and 0 <= na <= 1
    post: _
    """
    # RuleConstraint.fit on one candidate completion whose product side carries (or not) a dihalogen / O2 placeholder
    # pair, a solver-chosen number of free [O] placeholders, and whose reactant side carries a solver-chosen number
    # of free [H] placeholders: a row with a banned product is never accepted, whatever else is on the two sides.
    from synrbl.SynRuleImputer.synthetic_rule_constraint import RuleConstraint

    x = PART.get("x", x)
    prod = "B"
    if BAN_X[x]:
        prod += "." + BAN_X[x]
    prod += ".[O]" * no
    prod += ".N" * na
    reac = "A" + ".[H]" * nh
    row = {"id": "0", "reactants": reac, "products": prod, "new_reaction": reac + ">>" + prod}
    rc = RuleConstraint([row], ban_atoms=list(_BAN["list"]))
    certain, uncertain = rc.fit()
    if PART.get("twin"):
        return len(certain) == 0
    if len(certain) + len(uncertain) < 1:
        return False  # the candidate is in one of the two lists
    banned_halogen = BAN_X[x] not in ("", "[O].[O]")
    for r in certain:
        toks = r["products"].split(".")
        if banned_halogen and BAN_X[x] in toks:
            return False
        for d in ("ClCl", "BrBr", "FF", "II"):
            if d in toks:
                return False
    return True


_TOKC = {"[H]": {"H": 1}, "[O]": {"O": 1}, "O": {"H": 2, "O": 1}, "OO": {"H": 2, "O": 2}, "[H][H]": {"H": 2}, "A": {"X": 1}, "B": {"Y": 1}}


def _side_comp(side):
    tot = {}
    if side == "":
        return tot
    for t in side.split("."):
        if t == "":
            continue  # the empty given side in front of the first '.'
        c = _TOKC.get(t)
        if c is None:
            return None
        for k, v in c.items():
            tot[k] = tot.get(k, 0) + v
    return tot


def h_redox_rewrite(nh: int, no: int, noo: int, lead: int) -> bool:
    """
    pre: 0 <= nh <= 5 and 0 <= no <= 3 and 0 <= noo <= 1 and lead == 1
    post: _
    """
    # bounds: a non-empty given product side (lead == 1) and at most one hydrogen-peroxide completion; with an empty
    # given side the step writes 'OOO' for three waters, and two peroxides are replaced by one H2 + two waters --
    # both end as declined rows (the validator rejects them), they are noted in DESIGN.md and are outside this kernel
    # reduction_oxidation_rules_modify rewrites free-atom placeholders into water / H2 / [O]: whatever it does, it
    # must move the same atoms on both sides (reactants - products unchanged), or an exact completion stops adding
    # up to the imbalance it was asked to fill.
    from synrbl.SynRuleImputer.synthetic_rule_constraint import RuleConstraint

    # what single_impute hands over: the given product side ('B', or '' for an empty side) + '.' + completion
    prod = ("B" if lead else "") + ".[H]" * nh + ".[O]" * no + ".OO" * noo
    if prod == "":
        return True
    row = {"id": "0", "reactants": "A", "products": prod}
    r0, p0 = _side_comp("A"), _side_comp(prod)
    out = RuleConstraint.reduction_oxidation_rules_modify([dict(row)])
    if PART.get("twin"):
        return out[0]["products"] == prod
    if len(out) != 1:
        return False
    r1, p1 = _side_comp(out[0]["reactants"]), _side_comp(out[0]["products"])
    if r1 is None or p1 is None:
        return False  # a side was turned into something that is not a list of molecules
    if out[0].get("new_reaction") != out[0]["reactants"] + ">>" + out[0]["products"]:
        return False
    for k in set(r0) | set(p0) | set(r1) | set(p1):
        if (r0.get(k, 0) - p0.get(k, 0)) != (r1.get(k, 0) - p1.get(k, 0)):
            return False
    return True


def h_two_databases(h: int) -> bool:
    """
    pre: 1 <= h <= 2
    post: _
    """
    # the same imbalance solved twice in one process with two different rule databases: each completion may use
    # only compounds of the database it was given (no state may leak between calls)
    _cu.Chem = _AnyChem()
    _imp.Chem = _AnyChem()
    _m.calculate_net_charge = _cu.calculate_net_charge
    h = PART.get("h", h)
    db_a = [{"formula": "H", "smiles": "[H]", "Composition": {"H": 1, "Q": 0}}]
    db_b = [{"formula": "Hx", "smiles": "[O]", "Composition": {"H": 1, "Q": 0}}]  # a second database that spells its one-hydrogen compound differently
    outs = []
    for db in (db_a, db_b, db_a):
        row = {"Diff_formula": {"H": h, "Q": 0}, "Unbalance": "Products", "reactants": "A", "products": "B", "id": "0"}
        out = SyntheticRuleImputer.single_impute(row, [dict(r, Composition=dict(r["Composition"])) for r in db], "all", "ion_priority")
        outs.append(out.get("new_reaction"))
    if PART.get("twin"):
        return outs[0] is None
    want_a = "A>>B" + ".[H]" * h
    want_b = "A>>B" + ".[O]" * h
    return outs == [want_a, want_b, want_a]


def h_impute(h: int, o: int, q: int, prod: bool) -> bool:
    """
    pre: 0 <= h <= 2 and 0 <= o <= 2 and -1 <= q <= 1
    post: _
    """
    _cu.Chem = _AnyChem()
    _imp.Chem = _AnyChem()
    _m.calculate_net_charge = _cu.calculate_net_charge
    d = {}
    if h:
        d["H"] = h
    if o:
        d["O"] = o
    if q:
        d["Q"] = q
    row = {"Diff_formula": d, "Unbalance": "Products" if prod else "Reactants", "reactants": "A", "products": "B", "id": "0"}
    row0 = json.loads(json.dumps({"Unbalance": row["Unbalance"], "reactants": "A", "products": "B"}))
    out = SyntheticRuleImputer.single_impute(row, [dict(r, Composition=dict(r["Composition"])) for r in SUB], "all", "ion_priority")
    if PART.get("twin"):
        return "new_reaction" not in out
    if row["reactants"] != "A" or row["products"] != "B":
        return False  # the caller's row is not edited
    if "new_reaction" not in out:
        return out["reactants"] == "A" and out["products"] == "B"
    grown, kept = ("products", "reactants") if prod else ("reactants", "products")
    base = {"reactants": "A", "products": "B"}
    if out[kept] != base[kept]:
        return False
    if not out[grown].startswith(base[grown] + "."):
        return False
    added = out[grown][len(base[grown]) + 1 :].split(".")
    tot = {}
    for t in added:
        c = SUBC.get(t)
        if c is None:
            return False
        for k, v in c.items():
            tot[k] = tot.get(k, 0) + v
    if tot.get("H", 0) != h or tot.get("O", 0) != o or tot.get("Q", 0) != q:
        return False
    return out["new_reaction"] == out["reactants"] + ">>" + out["products"]


def plan(tier):
    P = []
    D = db()
    for name in ("manager", "automated"):
        for i, rec in enumerate(D[name]):
            P.append(Part(H + "h_step", {"db": name, "rule": i}, "apply_rule.step[%s#%d %s]" % (name, i, rec["smiles"]), group="step", timeout=600))
    P.append(Part(H + "h_step", {"db": "manager", "rule": 27, "twin": "apply"}, "apply_rule.twin[applies]", kind="twin", group="step"))
    P.append(Part(H + "h_step", {"db": "manager", "rule": 27, "twin": "refuse"}, "apply_rule.twin[refuses]", kind="twin", group="step"))
    P.append(Part(H + "h_exit", {}, "exit_strategy_solution", group="exit"))
    P.append(Part(H + "h_exit", {"twin": 1}, "exit_strategy_solution.twin", kind="twin", group="exit"))
    P.append(Part(H + "h_init", {}, "matcher.__init__ invariant", group="exit"))
    P.append(Part(H + "h_init", {"twin": 1}, "matcher.__init__.twin", kind="twin", group="exit"))
    shapes = [[["a"], ["b"]], [["a"], ["b", "c"], ["a"]], [["a", "c"], ["c", "a"], ["b", "c"]], [["b"], ["a"], ["c"]]]
    if tier == "thorough":
        shapes += [[["a", "b"], ["a"], ["b"], ["c"]], [["a", "b"], ["b", "a"]], [[ "c"], ["c"], ["a"]], []]
    for sh in shapes:
        P.append(Part(H + "h_select", {"shape": sh}, "selection%s" % json.dumps(sh).replace(" ", ""), group="selection", timeout=900))
    P.append(Part(H + "h_select", {"shape": [["a"], ["b"]], "twin": 1}, "selection.twin", kind="twin", group="selection"))
    mx = 4 if tier == "thorough" else 3
    P.append(Part(H + "h_match", {"max": mx, "select": "all"}, "match[all,<=%d]" % mx, group="search", timeout=1800))
    P.append(Part(H + "h_match", {"max": mx, "select": "best"}, "match[best,<=%d]" % mx, group="search", timeout=1800))
    P.append(Part(H + "h_match", {"max": 2, "select": "all", "withq": False}, "match[all,no Q key]", group="search", timeout=900))
    P.append(Part(H + "h_match", {"max": 2, "twin": 1}, "match.twin", kind="twin", group="search"))
    P.append(Part(H + "h_impute", {}, "single_impute", group="impute", timeout=1800))
    P.append(Part(H + "h_impute", {"twin": 1}, "single_impute.twin", kind="twin", group="impute"))
    for xi in range(len(BAN_X)):
        P.append(Part(H + "h_ban_filter", {"x": xi}, "ban_filter[%s]" % (BAN_X[xi] or "none"), group="ban", timeout=900))
    P.append(Part(H + "h_ban_filter", {"x": 0, "twin": 1}, "ban_filter.twin", kind="twin", group="ban"))
    P.append(Part(H + "h_redox_rewrite", {}, "redox_rewrite[conserves atoms]", group="ban", timeout=900))
    P.append(Part(H + "h_redox_rewrite", {"twin": 1}, "redox_rewrite.twin", kind="twin", group="ban"))
    for hh in (1, 2):
        P.append(Part(H + "h_two_databases", {"h": hh}, "single_impute.two-databases[H%d]" % hh, group="impute", timeout=600))
    P.append(Part(H + "h_two_databases", {"h": 2, "twin": 1}, "single_impute.two-databases.twin", kind="twin", group="impute"))
    return P


# ---------------------------------------------------------------- E2 + table check
HALOGENS = {"F", "Cl", "Br", "I", "At"}


def _ban_list_from_source():
    import synrbl.rule_based as rb

    tree = S.function_ast(rb.RuleBasedMethod.run)
    for node in ast.walk(tree):
        if isinstance(node, ast.keyword) and node.arg == "ban_atoms":
            try:
                return list(ast.literal_eval(node.value))
            except Exception:
                # not a literal any more (a module constant, a comprehension, ...): evaluate the expression in the
                # module's own namespace
                return list(eval(compile(ast.Expression(node.value), "<ban_atoms>", "eval"), dict(rb.__dict__)))
    # no ban_atoms argument: the class default applies
    from synrbl.SynRuleImputer.synthetic_rule_constraint import RuleConstraint

    return list(RuleConstraint([]).ban_atoms)


def extra(tier):
    import z3
    import re as _re
    from synrbl.SynRuleImputer.synthetic_rule_constraint import RuleConstraint

    obs = []
    # ---- database records (finite table check with real RDKit; not a solver result)
    t0 = time.time()
    bad = []
    n = 0
    for name, recs in db().items():
        for i, r in enumerate(recs):
            n += 1
            rec = dict(r["Composition"])
            rec.setdefault("Q", 0)
            if RealChem.MolFromSmiles(r["smiles"]) is None or rec != r["_true"]:
                bad.append((name, i, r["smiles"], r["Composition"], r["_true"]))
    obs.append({
        "name": "database.records[true composition]", "engine": "table", "group": "database",
        "status": "violation" if bad else "discharged", "queries": n,
        "detail": "%d records of both shipped rule files re-decomposed with real RDKit; mismatches: %r" % (n, bad[:3]),
        "solver_s": round(time.time() - t0, 3),
        "replay_payload": {"bad": bad},
    })
    # ---- ban pattern: regex from the literals of rule_based.run, translated to z3
    ban = _ban_list_from_source()
    rc = RuleConstraint([], ban_atoms=list(ban))
    pattern = rc.ban_pattern.pattern
    rx = S.regex_to_z3(pattern)
    searched = S.contains_match(rx)
    diX = []
    for name, recs in db().items():
        for r in recs:
            els = {k: v for k, v in r["_true"].items() if k != "Q"}
            if r["_true"]["Q"] == 0 and sum(els.values()) == 2 and set(els) <= HALOGENS:
                diX.append(r["smiles"])
    diX = sorted(set(diX))
    # all dihalogen / interhalogen molecules as RDKit spells them
    hal = ["F", "Cl", "Br", "I"]
    allX = sorted({RealChem.CanonSmiles(a + b) for a in hal for b in hal})
    for x in diX + ["[O].[O]"]:
        t0 = time.time()
        p = z3.String("p")
        s = z3.String("s")
        prod = z3.Concat(p, z3.StringVal("." + x), s)
        r, model, dt, smt2 = S.solve([z3.Not(z3.InRe(prod, searched))], model_vars={"p": p, "s": s})
        ob = {"name": "ban_pattern.finds[%s]" % x, "engine": "smt", "group": "ban", "queries": 1, "solver_s": round(dt, 3),
              "query": "exists p,s: not search(%r, p+'.%s'+s)" % (pattern, x)}
        if r == "unsat":
            ob["status"] = "discharged"
            ob["detail"] = "unsat: every product string that contains '.%s' is caught by the ban pattern" % x
            if tier == "thorough":
                c = S.cvc5_check(smt2)
                ob["cvc5"] = c
                if c == "sat":
                    ob["status"] = "harness_error"
                    ob["detail"] += " | cvc5 disagrees"
        elif r == "sat":
            text = model["p"] + "." + x + model["s"]
            real = rc.ban_pattern.search(text) is None
            ob["status"] = "violation" if real else "harness_error"
            ob["detail"] = "sat: product side %r is not caught by ban pattern %r (replayed on the real pattern: %s)" % (text, pattern, real)
            ob["replay_payload"] = {"products": text, "pattern": pattern}
        else:
            ob["status"] = "inconclusive"
            ob["detail"] = "z3 unknown"
        obs.append(ob)
    # information only: interhalogens RDKit can spell that the pattern does not cover (not addable: not in the database)
    uncovered = [x for x in allX if rc.ban_pattern.search("A." + x) is None]
    obs.append({"name": "ban_pattern.coverage-note", "engine": "table", "group": "ban", "status": "discharged", "queries": len(allX),
                "detail": "database dihalogens: %r; di/interhalogen spellings not covered by the pattern and not in any database (cannot be added): %r" % (diX, uncovered)})
    return {"obligations": obs, "findings": []}


def replay(data):
    import re as _re

    if "products" in data:
        return {"reproduced": _re.compile(data["pattern"]).search(data["products"]) is None}
    return {"reproduced": bool(data.get("bad"))}
