#!/usr/bin/env python3
"""Assemble /verif/seeded/<id>/ (patch.diff, demo.py, notes.md, meta.json) from the confirmed raw material in
.work/seeded_raw/<PID>/<mN>/ and the detection logs .work/mut_*.log (written by tools/try_mutant.sh)."""
import glob, json, os, re, shutil, sys

ROOT = os.path.dirname(os.path.dirname(os.path.abspath(__file__)))
RAW = os.path.join(ROOT, ".work", "seeded_raw")
OUT = os.path.join(ROOT, "seeded")

detect = {}
for log in sorted(glob.glob(os.path.join(ROOT, ".work", "mut_*.log")), key=os.path.getmtime):  # later runs override earlier ones
    cur = None
    for line in open(log, errors="replace"):
        m = re.match(r"^#### (\S+)", line)
        if m:
            cur = m.group(1)
            continue
        m = re.match(r"^== (\S+) rc=(\d+)", line)
        if m and cur:
            last = (m.group(1), int(m.group(2)))
            detect.setdefault(cur, {})[last[0]] = {"exit": last[1]}
            continue
        m = re.match(r"^property=(\S+) tier=(\S+) .*violations=(\d+)", line)
        if m and cur and m.group(1) in detect.get(cur, {}):
            detect[cur][m.group(1)].update({"tier": m.group(2), "violations": int(m.group(3))})

NEEDS = json.load(open(os.path.join(ROOT, "tools", "seeded_needs.json"))) if os.path.exists(os.path.join(ROOT, "tools", "seeded_needs.json")) else {}
index = []
for d in sorted(glob.glob(os.path.join(RAW, "*", "m*"))):
    pdir = os.path.basename(os.path.dirname(d))
    pid = pdir.rstrip("bc")  # third-wave directories are named <PID>b, fourth-wave <PID>c
    mn = os.path.basename(d)
    key = "%s/%s" % (pdir, mn)
    cf = os.path.join(d, "confirm.json")
    if not os.path.exists(cf):
        continue
    conf = json.load(open(cf))
    if not conf.get("confirmed"):
        continue
    sid = "%s-%s" % (pdir, mn)
    dst = os.path.join(OUT, sid)
    os.makedirs(dst, exist_ok=True)
    for f in ("patch.diff", "demo.py", "notes.md", "patch_on_c0aa3e9.diff"):
        if os.path.exists(os.path.join(d, f)):
            shutil.copy(os.path.join(d, f), os.path.join(dst, f))
    det = detect.get(key, {})
    caught = sorted(c for c, v in det.items() if v.get("exit") == 1)
    refused = sorted(c for c, v in det.items() if v.get("exit") == 3)
    meta = {
        "id": sid,
        "breaks_property": pid,
        "needs_to_manifest": NEEDS.get(key, {}).get("needs", "see notes.md"),
        "changed": NEEDS.get(key, {}).get("changed", "see patch.diff"),
        "written_against_commit": conf.get("base_commit", "c38f85e"),
        "confirmed_by": "tools/confirm_mutant.sh in a scratch worktree of /repo: patch applies; %d/%d baseline tests pass with the patch; demo.py exits %d without and %d with the patch" % (
            conf["baseline_tests_passing_with_patch"], conf["baseline_tests"], conf["demo_exit_clean"], conf["demo_exit_mutated"]),
        "checks_run": {c: v for c, v in sorted(det.items())},
        "caught_by": caught,
        "harness_error_exit3": refused,
        "comment": NEEDS.get(key, {}).get("comment", ""),
    }
    json.dump(meta, open(os.path.join(dst, "meta.json"), "w"), indent=1)
    index.append((sid, caught, sorted(det)))
lines = ["# Seeded changes", "",
         "Each directory holds `patch.diff` (against /repo commit c38f85e unless a `patch_on_<commit>.diff` is also present),",
         "`demo.py` (exits 0 on the unchanged tree, 1 with the patch), the author's `notes.md` and `meta.json`.",
         "Written by independent sub-agents that saw only the property text; confirmed with `tools/confirm_mutant.sh`;",
         "run against the checks with `tools/try_mutant.sh` (scratch worktree, quick tier).", "",
         "| id | breaks | changed | caught by (quick tier) | checks run |", "|---|---|---|---|---|"]
for sid, caught, ran in index:
    meta = json.load(open(os.path.join(OUT, sid, "meta.json")))
    lines.append("| %s | %s | %s | %s | %s |" % (sid, meta["breaks_property"], meta["changed"].replace("|", "/"), ", ".join(caught) or "**not caught**" + ((" (exit 3, harness limit reported by " + ", ".join(meta["harness_error_exit3"]) + ")") if meta.get("harness_error_exit3") else "") + (" — " + meta["comment"] if meta.get("comment") else ""), ", ".join(ran)))
    print("%-8s caught by %-30s (ran %s)" % (sid, ",".join(caught) or "-", ",".join(ran)))
ncaught = sum(1 for _, c, _ in index if c)
lines += ["", "%d of %d seeded changes are caught by at least one quick-tier check." % (ncaught, len(index)), ""]
open(os.path.join(OUT, "INDEX.md"), "w").write("\n".join(lines))
