"""Stub world for pipeline-level harnesses (DESIGN.md 2.2).

The real orchestration code of SynRBL (preprocess, Validator, RuleBasedMethod,
BothSideReact, the rule matcher/imputer/constraint, MCSSearch.find,
get_largest_condition, MCSBasedMethod.run/impute_reaction, PostProcess and the
two curation classes, ConfidencePredictor.predict, Balancer.rebalance with
batching) runs unmodified.  What is replaced, in this process only:

* joblib Parallel/delayed -> sequential shim
* pandas                  -> the real pandas, every call executed under NoTracing
* chemistry (RDKit)       -> "abstract chemistry": molecules are tokens; the world W
                             holds, per token, a composition {element: count}, a charge
                             and a validity flag -- symbolic for abstract tokens, real
                             (computed once with the real RSMIDecomposer + RDKit) for the
                             marker/rule/template compounds
* MCS search, missing-graph analysis, compound building, merge, standardiser,
  functional-group lookup, confidence model -> outcome stubs driven by W
"""
from __future__ import annotations

import importlib
import sys
from typing import Any, Dict, List, Optional

import pandas as _real_pd
from crosshair.tracers import NoTracing

# --------------------------------------------------------------------------- joblib


class SeqParallel:
    def __init__(self, *a, **k):
        self.return_as = k.get("return_as", "list")

    def __call__(self, tasks):
        out = [f(*a, **k) for (f, a, k) in tasks]
        if self.return_as == "generator":
            return iter(out)
        return out


def seq_delayed(f):
    def d(*a, **k):
        return (f, a, k)

    return d


# --------------------------------------------------------------------------- pandas

_PD_TYPES = (
    _real_pd.DataFrame,
    _real_pd.Series,
    _real_pd.Index,
    _real_pd.core.strings.accessor.StringMethods,
    _real_pd.core.indexing._LocIndexer,
    _real_pd.core.indexing._iLocIndexer,
)


def _unwrap(x):
    if isinstance(x, _Obj):
        return object.__getattribute__(x, "_o")
    t = type(x)
    if t is list:
        return [_unwrap(i) for i in x]
    if t is tuple:
        return tuple(_unwrap(i) for i in x)
    return x


def _wrap(x):
    if isinstance(x, _PD_TYPES):
        return _Obj(x)
    if callable(x) and not isinstance(x, type):
        return _wrap_callable(x)
    return x


def _wrap_callable(f):
    def call(*a, **k):
        with NoTracing():
            a2 = tuple(_unwrap(i) for i in a)
            k2 = {kk: _unwrap(v) for kk, v in k.items()}
            r = f(*a2, **k2)
            return _wrap(r)

    return call


class _Obj:
    __slots__ = ("_o",)

    def __init__(self, o):
        object.__setattr__(self, "_o", o)

    def __getattr__(self, name):
        with NoTracing():
            return _wrap(getattr(object.__getattribute__(self, "_o"), name))

    def __setattr__(self, name, value):
        with NoTracing():
            setattr(object.__getattribute__(self, "_o"), name, _unwrap(value))

    def __getitem__(self, k):
        with NoTracing():
            return _wrap(object.__getattribute__(self, "_o")[_unwrap(k)])

    def __setitem__(self, k, v):
        with NoTracing():
            object.__getattribute__(self, "_o")[_unwrap(k)] = _unwrap(v)

    def __len__(self):
        with NoTracing():
            return len(object.__getattribute__(self, "_o"))

    def __iter__(self):
        with NoTracing():
            items = list(object.__getattribute__(self, "_o"))
        return iter(items)

    def __contains__(self, k):
        with NoTracing():
            return k in object.__getattribute__(self, "_o")


class PdProxy:
    def __getattr__(self, name):
        a = getattr(_real_pd, name)
        if isinstance(a, type) or callable(a):
            return _wrap_callable(a)
        return a


PD = PdProxy()

# --------------------------------------------------------------------------- chemistry

# abstract molecule names: lower-case letters that occur in no element symbol and no SMILES syntax
ABSTRACT = ("j", "q", "w", "x", "z")


class Tok:
    __slots__ = ("comp", "q", "valid", "carbon")

    def __init__(self, comp, q=0, valid=True):
        self.comp = comp  # {element: count}; counts may be symbolic, zero allowed
        self.q = q
        self.valid = valid


class World:
    def __init__(self):
        self.tok: Dict[str, Tok] = {}
        self.mcs: Dict[str, int] = {}  # reaction content -> mcs outcome mode
        self.merge_tok: Dict[str, str] = {}  # reaction content -> token returned by merge
        self.fg: Dict[str, Any] = {}
        self.fg_default = 0
        self.conf: Dict[str, Any] = {}  # reaction content (input) -> confidence
        self.conf_default = 1.0
        self.ghost: Dict[str, Any] = {}
        self.elements: List[str] = []

    # ---- lookups
    def lookup(self, token: str) -> Optional[Tok]:
        t = self.tok.get(token)
        if t is not None:
            return t
        t = REAL.get(token)
        if t is not None:
            return t
        if token == "" or _mentions_abstract(token):
            return None  # empty component, or a corrupted abstract molecule: not a molecule
        return real_token(token)

    def side(self, smiles: str):
        """(valid, {el: total}, charge, carbon) of a dot-separated side string; '' is the empty molecule."""
        comp: Dict[str, Any] = {}
        q = 0
        if smiles == "":
            return True, comp, q
        ok = True
        for token in smiles.split("."):
            t = self.lookup(token)
            if t is None:
                return False, {}, 0
            if t.valid:
                pass
            else:
                ok = False
            for el, n in t.comp.items():
                comp[el] = comp.get(el, 0) + n
            q = q + t.q
        if not ok:
            return False, {}, 0
        return True, comp, q


def _mentions_abstract(token: str) -> bool:
    return any(a in token for a in ABSTRACT)


W = World()
REAL: Dict[str, Tok] = {}
_REAL_CACHE: Dict[str, Optional[Tok]] = {}


def real_token(token: str) -> Optional[Tok]:
    """Composition of a concrete real SMILES token through the real decomposer + RDKit (cached, untraced)."""
    with NoTracing():
        if token in _REAL_CACHE:
            return _REAL_CACHE[token]
        import rdkit.Chem as Chem
        from rdkit import RDLogger

        RDLogger.DisableLog("rdApp.*")
        t = None
        try:
            mol = Chem.MolFromSmiles(token)
            if mol is not None:
                comp: Dict[str, int] = {}
                molh = Chem.AddHs(mol)
                for a in molh.GetAtoms():
                    s = a.GetSymbol()
                    comp[s] = comp.get(s, 0) + 1
                t = Tok(comp, Chem.GetFormalCharge(molh), True)
        except Exception:
            t = None
        _REAL_CACHE[token] = t
        return t


def register_real(tokens):
    for s in tokens:
        if s not in REAL:
            t = real_token(s)
            if t is None:
                raise RuntimeError("real token does not parse: %r" % s)
            REAL[s] = t


# ---- stubs bound into the synrbl modules


from vf.world.chem import StubMissing, _missing


class _Strict:
    """Fake RDKit objects answer only what the stub world models; anything else is a harness limit (StubMissing)."""

    def __getattr__(self, name):
        if name.startswith("__"):
            raise AttributeError(name)
        _missing(self, name)


class FakeMolObj(_Strict):
    """What the fake MolFromSmiles returns for a valid string: only truthiness / identity is used."""

    def __init__(self, smiles):
        self.smiles = smiles

    def __bool__(self):
        return True



class FakeChem:
    @staticmethod
    def MolFromSmiles(smiles, *a, **k):
        ok, _, _ = W.side(str(smiles))
        if ok:
            return FakeMolObj(smiles)
        return None

    @staticmethod
    def CanonSmiles(smiles, *a, **k):
        ok, _, _ = W.side(str(smiles))
        if ok:
            return smiles
        raise ValueError("cannot canonicalise %r" % (smiles,))

    @staticmethod
    def MolToSmiles(mol, *a, **k):
        return mol.smiles

    @staticmethod
    def MolFromSmarts(s, *a, **k):
        return _Smarts(s)


class _Smarts(_Strict):
    def __init__(self, s):
        self.s = s

    def GetNumAtoms(self):
        return W.ghost.get("smarts_atoms", {}).get(self.s, len(self.s))


def stub_decompose(smiles):
    ok, comp, q = W.side(smiles)
    out = {}
    if not ok:
        return out
    for el, n in comp.items():
        if n != 0:
            out[el] = n
    if q != 0:
        out["Q"] = q
    return out


def stub_count_atoms(smiles, atom_type, smiles_cache):
    if smiles in smiles_cache:
        return smiles_cache[smiles]
    t = W.lookup(smiles) if smiles != "" else Tok({})
    n = 0
    if t is not None and t.valid:
        n = t.comp.get(atom_type, 0)
    smiles_cache[smiles] = n
    return n


def true_carbon(smiles):
    ok, comp, _ = W.side(smiles)
    return comp.get("C", 0) if ok else 0


def stub_is_carbon_balanced(reaction_smiles):
    tokens = reaction_smiles.split(">>")
    okr, cr, _ = W.side(tokens[0])
    okp, cp, _ = W.side(tokens[1])
    if not (okr and okp):
        raise AttributeError("'NoneType' object has no attribute 'GetAtoms'")
    return cr.get("C", 0) == cp.get("C", 0)


# ---- MCS stage (coarse outcome stubs; the fine-grained fault model lives in the C11 harness)

MCS_FAIL, MCS_UNCERTAIN_GRAPH, MCS_EMPTY, MCS_MERGE_RAISE, MCS_OK = 0, 1, 2, 3, 4


def _content(reaction):
    return reaction.get("input_reaction", reaction.get("reaction"))


def stub_ensemble_mcs(data, conditions, id_col="id", issue_col="issue", n_jobs=-1, timeout=1):
    W.ghost.setdefault("mcs_started", []).extend(_content(r) for r in data)
    out = []
    for ci, _cond in enumerate(conditions):
        rows = []
        for r in data:
            mode = W.mcs.get(_content(r), MCS_FAIL)
            d = {id_col: r[id_col], "mcs_results": [], "sorted_reactants": [], issue_col: ""}
            if mode == MCS_FAIL:
                d[issue_col] = "MCS identification failed. stub"
            else:
                d["mcs_results"] = ["s%d" % ci]
                d["sorted_reactants"] = ["x"]
            d["_content"] = _content(r)
            rows.append(d)
        out.append(rows)
    return out


def stub_find_graph_dict(mcs_dict, n_jobs=4):
    out = []
    for d in mcs_dict:
        mode = W.mcs.get(d.get("_content"), MCS_FAIL)
        o = {
            "smiles": ["frag"],
            "boundary_atoms_products": [[{"C": 0}]],
            "nearest_neighbor_products": [[{"C": 1}]],
            "issue": "",
            "Certainty": True,
        }
        if mode == MCS_FAIL:
            # real code: entries of a failed search still reach find_graph_dict with empty lists
            o["smiles"] = []
            o["boundary_atoms_products"] = []
            o["nearest_neighbor_products"] = []
        if mode == MCS_UNCERTAIN_GRAPH:
            o["issue"] = "Find Missing Graph terminated by timeout"
            o["smiles"] = []
            o["boundary_atoms_products"] = []
            o["nearest_neighbor_products"] = []
        out.append(o)
    return out


class MergeFailure(Exception):
    """what the merge stub raises: an arbitrary exception type (the merge code raises several of its own)"""


class _Rule:
    def __init__(self, name):
        self.name = name


class _MergeResult:
    def __init__(self, smiles):
        self.smiles = smiles
        self.rules = [_Rule("stub rule")]


class _CSet(list):
    pass


def stub_build_compounds(data_dict):
    mode = W.mcs.get(data_dict.get("_content"), MCS_FAIL)
    c = _CSet()
    if mode == MCS_UNCERTAIN_GRAPH:
        # real code: a failed/timed-out graph analysis leaves empty lists -> length mismatch
        raise ValueError("Smiles and sorted reactants are not of the same length. (0 != 1)")
    if mode in (MCS_MERGE_RAISE, MCS_OK):
        c.append(data_dict.get("_content"))
    return c


def stub_merge(cset):
    content = cset[0]
    mode = W.mcs.get(content, MCS_FAIL)
    if mode == MCS_MERGE_RAISE:
        raise MergeFailure("merge failed (stub)")
    return _MergeResult(W.merge_tok.get(content, "M"))


# ---- post-processing stubs

# one representative per distinct behaviour of the curation code (only the first template of a group is used):
FG_CHOICES = [
    ([], []),                                       # no functional-group change: reduction 'other' (H2) / no oxidation
    (["aldehyde"], ["carboxylic_acid"]),            # reduction template_1 (H2) / oxidation template_3 (KMnO4, H2O)
    (["ester"], []),                                # reduction template_2 (NaBH4)
    (["amid"], []),                                 # reduction template_4 (LiAlH4)
    (["unlisted_group"], ["unlisted_group2"]),      # 'other' on both
    (["primary_alcohol"], ["aldehyde"]),            # oxidation template_1 (PCC)
    (["secondary_alcohol"], ["ketone"]),            # oxidation template_1 (PCC)
    (["primary_alcohol"], ["carboxylic_acid"]),     # oxidation template_2 (KMnO4, H2SO4)
]


def stub_find_functional_reactivity(reaction_smiles):
    i = W.fg.get(reaction_smiles, W.fg_default)
    a, b = FG_CHOICES[i]
    return list(a), list(b)


def stub_count_radical_atoms(smiles, atomic_num):
    tok = {1: "[H]", 8: "[O]"}[atomic_num]
    return smiles.split(".").count(tok)


# ---- confidence stubs (as in the C13 kernel)

_THR: Dict[str, Any] = {}


class Num:
    def __init__(self, v):
        self.v = v

    def item(self):
        return self.v

    def __ge__(self, o):
        return self.v >= (o.v if isinstance(o, (Thr, Num)) else o)

    def __lt__(self, o):
        return self.v < (o.v if isinstance(o, (Thr, Num)) else o)


class Thr:
    """The threshold as the pipeline sees it; the (possibly symbolic) value stays out of the object
    because CrossHair deep-realises every attribute of a str.format argument."""

    __slots__ = ("tag",)

    def __init__(self, v, tag="t"):
        _THR[tag] = v
        self.tag = tag

    @property
    def v(self):
        return _THR[self.tag]

    def __format__(self, spec):
        return "<thr:%s>" % self.tag

    def __le__(self, o):
        return self.v <= (o.v if isinstance(o, (Thr, Num)) else o)

    def __ge__(self, o):
        return self.v >= (o.v if isinstance(o, (Thr, Num)) else o)

    def __lt__(self, o):
        return self.v < (o.v if isinstance(o, (Thr, Num)) else o)

    def __gt__(self, o):
        return self.v > (o.v if isinstance(o, (Thr, Num)) else o)

    def __deepcopy__(self, memo):
        return self

    def __eq__(self, o):
        return isinstance(o, Thr) and o.tag == self.tag

    def __hash__(self):
        return hash(self.tag)


class _Frame(_Strict):
    def __init__(self, rows):
        self.rows = rows

    def __getitem__(self, cols):
        return self


class _ConfPD(_Strict):
    def DataFrame(self, rows, *a, **k):
        return _Frame(list(rows))


class _Col(_Strict):
    def __init__(self, vals):
        self.vals = vals

    def __getitem__(self, idx):
        return [Num(v) for v in self.vals]


def _expected_boundary_count(row):
    n = 0
    m = row.get("mcs")
    if m:
        for i in m.get("boundary_atoms_products", []):
            if isinstance(i, dict):
                n += 1
            elif isinstance(i, list):
                for j in i:
                    if isinstance(j, dict):
                        n += 1
    return n


class _Model(_Strict):
    """Arbitrary model: the output for a row is the world's confidence of that reaction as long as the features
    computed by the real feature code are the row's own (num_boundary, bond/ring change); a row that reaches the
    model with foreign feature values gets a different output (a model may depend on any feature)."""

    def predict_proba(self, X):
        out = []
        for r in X.rows:
            c = W.conf.get(r.get("input_reaction"), W.conf_default)
            own = r.get("num_boundary") == _expected_boundary_count(r) and r.get("bond_change_merge") == 0 and r.get("ring_change_merge") == 0
            if not own:
                c = c - 1 if c >= 1 else c + 1
            out.append(c)
        return _Col(out)


class _FeatMol(_Strict):
    def GetNumBonds(self):
        return 0

    def GetAtoms(self):
        return []


class _FeatChem:
    @staticmethod
    def MolFromSmiles(s, *a, **k):
        ok, _, _ = W.side(str(s))
        return _FeatMol() if ok else None


class _ConfNP(_Strict):
    def round(self, xs, nd=0):
        return xs


# --------------------------------------------------------------------------- installation

_SYN_MODULES = [
    "synrbl.balancing",
    "synrbl.preprocess",
    "synrbl.postprocess",
    "synrbl.rule_based",
    "synrbl.mcs_search",
    "synrbl.confidence_prediction",
    "synrbl.SynProcessor.rsmi_processing",
    "synrbl.SynProcessor.rsmi_decomposer",
    "synrbl.SynProcessor.rsmi_comparator",
    "synrbl.SynProcessor.rsmi_both_side_process",
    "synrbl.SynProcessor.check_carbon_balance",
    "synrbl.SynRuleImputer.synthetic_rule_imputer",
    "synrbl.SynRuleImputer.synthetic_rule_constraint",
    "synrbl.SynRuleImputer.synthetic_rule_matcher",
    "synrbl.SynMCSImputer.mcs_based_method",
    "synrbl.SynMCSImputer.SubStructure.mcs_process",
    "synrbl.SynMCSImputer.SubStructure.extract_common_mcs",
    "synrbl.SynMCSImputer.MissingGraph.find_graph_dict",
    "synrbl.SynChemImputer.post_process",
    "synrbl.SynChemImputer.curate_oxidation",
    "synrbl.SynChemImputer.curate_reduction",
    "synrbl.SynUtils.chem_utils",
    "synrbl.SynUtils.batching",
]

_installed = False
_balancer = None
PIPE_RULE_SMILES = ["[H]", "O", "[O]", "[H+]", "[Na+]", "[Cl-]"]


class PatchPointMissing(Exception):
    pass


def _need(mod, name):
    if not hasattr(mod, name):
        raise PatchPointMissing("%s.%s" % (mod.__name__, name))


def install(coarse_mcs=True):
    """Bind the stub world into the loaded synrbl modules (idempotent)."""
    global _installed
    if _installed:
        return
    mods = {m: importlib.import_module(m) for m in _SYN_MODULES}
    for m in list(sys.modules.values()):
        name = getattr(m, "__name__", "")
        if name.startswith("synrbl"):
            if hasattr(m, "Parallel"):
                m.Parallel = SeqParallel
            if hasattr(m, "delayed"):
                m.delayed = seq_delayed
    for name in ("synrbl.preprocess", "synrbl.rule_based", "synrbl.SynProcessor.rsmi_processing"):
        _need(mods[name], "pd")
        mods[name].pd = PD
    # any other analysed module that (now) imports pandas gets the same untraced proxy
    for m in list(sys.modules.values()):
        name = getattr(m, "__name__", "")
        if name.startswith("synrbl") and getattr(m, "pd", None) is _real_pd and name != "synrbl.confidence_prediction":
            m.pd = PD

    m = mods["synrbl.SynProcessor.rsmi_processing"]
    _need(m, "Chem")
    m.Chem = FakeChem
    m = mods["synrbl.SynProcessor.rsmi_decomposer"]
    _need(m.RSMIDecomposer, "decompose")
    m.RSMIDecomposer.decompose = staticmethod(stub_decompose)
    m = mods["synrbl.SynProcessor.check_carbon_balance"]
    _need(m.CheckCarbonBalance, "count_atoms")
    m.CheckCarbonBalance.count_atoms = staticmethod(stub_count_atoms)
    m.BlockLogs = _NoBlock
    m = mods["synrbl.SynRuleImputer.synthetic_rule_imputer"]
    _need(m, "Chem")
    m.Chem = FakeChem
    # calculate_net_charge (ranking of equally short completions) stays real: RDKit on concrete rule SMILES
    m = mods["synrbl.SynMCSImputer.mcs_based_method"]
    for n in ("build_compounds", "merge", "is_carbon_balanced", "BlockLogs"):
        _need(m, n)
    m.build_compounds = stub_build_compounds
    m.merge = stub_merge
    m.is_carbon_balanced = stub_is_carbon_balanced
    m.BlockLogs = _NoBlock
    m = mods["synrbl.SynMCSImputer.SubStructure.extract_common_mcs"]
    _need(m, "Chem")
    m.Chem = FakeChem
    if coarse_mcs:
        m = mods["synrbl.mcs_search"]
        _need(m, "ensemble_mcs")
        _need(m, "find_graph_dict")
        m.ensemble_mcs = stub_ensemble_mcs
        m.find_graph_dict = stub_find_graph_dict
    m = mods["synrbl.SynChemImputer.post_process"]
    _need(m, "Chem")
    m.Chem = FakeChem
    for name in ("synrbl.SynChemImputer.curate_oxidation", "synrbl.SynChemImputer.curate_reduction"):
        m = mods[name]
        for n in ("find_functional_reactivity", "count_radical_atoms", "check_for_isolated_atom"):
            _need(m, n)
        m.find_functional_reactivity = stub_find_functional_reactivity
        m.count_radical_atoms = stub_count_radical_atoms
    m = mods["synrbl.SynChemImputer.post_process"]
    _need(m.PostProcess, "fit")
    _orig_fit = m.PostProcess.fit

    def _fit(self, data):
        res = _orig_fit(self, data)
        W.ghost.setdefault("pp", []).extend(res)
        return res

    m.PostProcess.fit = _fit
    m = mods["synrbl.confidence_prediction"]
    for n in ("pd", "np", "count_boundary_atoms_products_and_calculate_changes", "calculate_chemical_properties"):
        _need(m, n)
    m.pd = _ConfPD()
    m.np = _ConfNP()
    # count_boundary_atoms_products_and_calculate_changes stays real (its RDKit calls are stubbed: no bonds, no rings)
    import synrbl.SynAnalysis.analysis_utils as _au

    _need(_au, "Chem")
    _need(_au, "CalcNumRings")
    _au.Chem = _FeatChem
    _au.CalcNumRings = lambda mol: 0
    m.calculate_chemical_properties = lambda rows: rows
    # real tokens of the universe
    import json

    from synrbl.SynChemImputer import curate_oxidation as _co

    toks = set(["O", "[H]", "[O]", "[H][H]", "[HH]", "OO", "[Na]", "[K]", "[Li]", "[H-]", "[H+]", "[Na+]", "[Cl-]", "O=O"])
    for grp in _co.reaction_templates.values():
        for t in grp.values():
            for v in (t.values() if "reactants" not in t else [t]):
                toks.update(v["reactants"])
                toks.update(v["products"])
    register_real(sorted(toks))
    _installed = True


class _NoBlock:
    def __init__(self, *a, **k):
        pass


_ABS_Q: Dict[str, int] = {}


def _abs_charge(smiles):
    with NoTracing():
        if smiles in _ABS_Q:
            return _ABS_Q[smiles]
        import rdkit.Chem as Chem

        mol = Chem.MolFromSmiles(smiles)
        v = sum(abs(a.GetFormalCharge()) for a in mol.GetAtoms()) if mol else 0
        _ABS_Q[smiles] = v
        return v


def shipped_rules():
    import importlib.resources
    import json

    import synrbl.SynRuleImputer

    with importlib.resources.files(synrbl.SynRuleImputer).joinpath("rules_manager.json.gz").open("r") as f:
        return json.load(f)


_RULES_CACHE: Dict[Any, Any] = {}


def pipe_rules(smiles_list=None):
    """Sub-database of the shipped rules (first record per SMILES), compositions recomputed with real RDKit.
    Read once per process, untraced (CrossHair's pure-Python json would otherwise be re-run on every path)."""
    key = tuple(smiles_list or PIPE_RULE_SMILES)
    with NoTracing():
        if key not in _RULES_CACHE:
            _RULES_CACHE[key] = _pipe_rules(key)
        return _RULES_CACHE[key]


def _pipe_rules(smiles_list):
    want = list(smiles_list)
    out = []
    seen = set()
    for r in shipped_rules():
        if r["smiles"] in want and r["smiles"] not in seen:
            seen.add(r["smiles"])
            t = real_token(r["smiles"])
            comp = {k: v for k, v in t.comp.items()}
            comp["Q"] = t.q
            out.append({"formula": r["formula"], "smiles": r["smiles"], "Composition": comp})
            register_real([r["smiles"]])
    missing = set(want) - seen
    if missing:
        raise PatchPointMissing("rules not in shipped database: %s" % sorted(missing))
    return out


def balancer(threshold=0, rules=None, batch_size=None):
    """A real Balancer wired to the stub world (constructed once per process; stateless between runs)."""
    global _balancer
    install()
    if _balancer is None:
        with NoTracing():
            from synrbl import Balancer

            b = Balancer(n_jobs=1)
            b.mcs_method.smiles_standardizer = []
            b.conf_predictor.model = _Model()
            _balancer = b
    b = _balancer
    b.rb_method.rules = rules if rules is not None else pipe_rules()
    b.confidence_threshold = threshold
    b.batch_size = batch_size
    b.cache = False
    return b


def reset_world(elements):
    global W
    W.tok = {}
    W.mcs = {}
    W.merge_tok = {}
    W.fg = {}
    W.fg_default = 0
    W.conf = {}
    W.conf_default = 1.0
    W.ghost = {}
    W.elements = list(elements)
    return W


def run_pipeline(b, rows, stats=None):
    """Balancer.__run_pipeline on a deep copy of `rows` (list of dicts)."""
    import copy

    return b._Balancer__run_pipeline(copy.deepcopy(rows), stats)


# --------------------------------------------------------------------------- oracle helpers


def vec_equal(ca, qa, cb, qb):
    keys = set(ca) | set(cb)
    for k in keys:
        if ca.get(k, 0) != cb.get(k, 0):
            return False
    return qa == qb


def truly_balanced(reaction: str):
    """(parses, balanced) of a reaction string in the world."""
    parts = reaction.split(">>")
    if len(parts) != 2:
        return False, False
    okr, cr, qr = W.side(parts[0])
    okp, cp, qp = W.side(parts[1])
    if not (okr and okp):
        return False, False
    return True, vec_equal(cr, qr, cp, qp)
