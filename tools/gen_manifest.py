#!/usr/bin/env python3
"""Regenerates /verif/MANIFEST.json from the table below (kept in one place)."""
import json, os, sys

ROOT = os.path.dirname(os.path.dirname(os.path.abspath(__file__)))

CLAIMS = {
    "C07": dict(
        technique="bounded symbolic execution of the real accounting kernels (CrossHair + z3), path-exhaustive per partition",
        text="Every kernel behind the composition/charge accounting (decompose over the whole periodic table with a fake molecule, compare_dicts, diff_dicts, enforce_product_side + side selection, carbon label with its cache, is_carbon_balanced) is executed symbolically with unbounded integer counts and symbolic key presence and compared with a vector reference; each partition is explored to path exhaustion, so inside the stated key/atom bounds the verdict holds for every integer value.",
        note="Assumes RDKit's AddHs/mixture additivity contract (fake molecule), CrossHair's exhaustion claim and z3. Key sets of 3-4 elements + charge; 1-3 atoms for decompose. The contract 'decompose = true composition' of the real function with real RDKit is validated on a fixed table of 66 SMILES (concrete, reported as such).",
        ref="3/C07",
    ),
    "C08": dict(
        engine="xh+smt",
        technique="inductive step of the rule matcher by bounded symbolic execution (CrossHair + z3) per shipped rule; z3 regex inclusion for the ban pattern",
        text="One solver query per record of both shipped rule files shows that apply_rule, from an arbitrary well-formed state with unbounded integers, either refuses a rule that does not fit or subtracts exactly ratio x composition with ratio >= 1 (charge included) without mutating its inputs; with the exit condition and the constructor invariant this gives by induction that every accepted completion sums to the imbalance, for any search depth. Selection functions, single_impute side selection and a bounded whole-search cross-check (real dfs/match on a 4-rule sub-database) close the gap to what is appended; the ban regex is translated from the source literals and shown by z3 to catch every database dihalogen; database records are re-decomposed with real RDKit.",
        note="Induction argument over the DFS path is ours (cross-checked on the bounded whole search); MolFromSmiles stubs; table check of the 68 records is concrete, not a solver result.",
        ref="3/C08",
    ),
    "C13": dict(
        technique="bounded symbolic execution of ConfidencePredictor.predict with symbolic real confidences and thresholds (CrossHair + z3)",
        text="The real predict() runs on row layouts mixing all methods with solver-chosen confidences c and thresholds t1<=t2 in [0,1]: reported confidence = c for both thresholds, solved iff c >= t (the boundary c = t is a solver case, not a sample), demoted rows get an issue naming the threshold, every other row is bit-identical, confident_cnt = rows kept, monotone in t. Path-exhaustive per layout.",
        note="Feature extraction, pandas, numpy.round and the xgboost model are stubs returning an arbitrary number per MCS row; floats are modelled as reals.",
        ref="3/C13",
    ),
    "C19": dict(
        technique="one inductive step from an arbitrary invariant-satisfying database by bounded symbolic execution (CrossHair + z3); base case concrete",
        text="add_entry / add_entries / remove_entry of the real RuleImputeManager are executed from every pre-state shape of <= 2 (thorough 3) records satisfying the invariant, with solver-chosen arguments and symbolic per-token composition: the invariant is preserved, rejected adds leave the database unchanged and are reported, remove deletes only the named record. One step from an arbitrary state covers histories of any length. The shipped files are checked against the invariant concretely (known finding: duplicates in the shipped manual database).",
        note="MolFromSmiles/decompose stubbed by a symbolic world; string identity of SMILES (the manager's own notion of duplicate).",
        ref="3/C19",
    ),
}


PIPE_NOTE = ("Abstract chemistry: RDKit, joblib, pandas tracing, MCS search, merge, functional-group lookup and the confidence model are stubs with stated contracts "
             "(evidence.coverage.stubs); bounds: 1-2 rows, <= 3 molecules per side, element counts 0..2 over {C,H} (thorough adds {C,H,O}), charge -1..1, rule database restricted to 6 shipped records. "
             "Trusted: CrossHair's path-exhaustion claim, z3.")
PIPE_TECH = "bounded symbolic execution of the real Balancer pipeline on an abstract-chemistry stub world (CrossHair + z3), path-exhaustive per partition; counterexamples replayed concretely"
CLAIMS.update({
    "C01": dict(technique=PIPE_TECH, ref="3/C01", note=PIPE_NOTE,
        text="The whole real pipeline (three validators, rule-based stage, MCS attach/impute, reagent post-processing, second rule-based run, final validation, confidence filter) runs on symbolic compositions, charges and environment outcomes; every row returned with solved=True must parse and have equal true composition and charge on both sides, computed by the harness from the world. Known finding (reagent template balanced only with coefficients) is excluded by region and its specified deviation is checked instead; its concrete witness is replayed on the real code."),
    "C02": dict(technique=PIPE_TECH, ref="3/C02", note=PIPE_NOTE,
        text="Same symbolic pipeline run; oracle on token multisets: per side every input molecule is present in the output with at least its multiplicity and every extra token is a complete molecule of the universe (rule/template compounds, water, H2, placeholders, merge result); input_reaction equals the given reaction. Shapes include inputs that contain the marker substrings ([H][H], OO, O)."),
    "C03": dict(technique=PIPE_TECH, ref="3/C03", note=PIPE_NOTE,
        text="Same symbolic pipeline run at the default threshold; for every combination of stage outcomes an unsolved row has reaction == input_reaction and a non-empty issue, a solved row names one of the three methods with an empty/absent issue, and a row whose products hold more carbon than its reactants is unsolved."),
    "C04": dict(technique=PIPE_TECH, ref="3/C04", note=PIPE_NOTE,
        text="Same symbolic pipeline run; if the true compositions and charges of the two input sides are equal (a solver constraint over the symbolic counts, not a sample) the row is solved by input-balanced and returned unchanged; conversely an input-balanced label implies a balanced input and an unchanged reaction. The balance verdict itself is the C07 kernels."),
    "C05": dict(technique="bounded symbolic execution of Balancer.rebalance with DataLoader/Dataset and the real pipeline; row classes, batch size and input form solver-chosen (CrossHair + z3)", ref="3/C05",
        note=PIPE_NOTE + " Known findings C05-unparsable-row-dropped and C05-bad-separator-loses-batch are excluded by region with their specified deviation; CSV/JSON readers and the CLI are outside.",
        text="n <= 3 rows, each symbolically one of 10 classes (valid, 7 malformed kinds, rule-solvable, duplicate), symbolic batch size, list/dict/Dataset input: exactly the expected rows come back in order, each describing its input. Batching kernel (DataLoader) with symbolic n <= 6 and batch size separately. Outside the two known regions the full property is required; inside, exactly the specified deviation."),
    "C15": dict(engine="smt", technique="z3 regular-expression inclusion and linear-integer queries generated from the regex literals in the current source; cvc5 cross-check on thorough; sat models replayed on the real function and RDKit", ref="3/C15",
        note="Python re semantics reduced to: matches start at the literal first character, longest match for the checked pattern shape; OpenSMILES bracket-atom grammar with RDKit's element table; valence lists from RDKit.",
        text="For every bracket atom of the OpenSMILES grammar (unbounded field lengths, whole periodic table) the first substitution deletes exactly the class field and nothing else, the second unbrackets only plain organic-subset atoms and puts back exactly the symbol, and (integer query) a closed-shell atom keeps its hydrogen count unless it lies in the recorded known region (hypervalent hydrides); outside brackets the first regex never fires (the aromatic-bond defect found here was repaired in /repo; no region is excluded for it any more). Appended compounds are scanned for class fields."),
    "C17": dict(engine="xh+smt", technique="z3 query on the extracted sort-key lambda with uninterpreted components (injectivity); bounded symbolic execution of normalize_smiles / wc_similarity with canonicalisation and fingerprints stubbed (CrossHair + z3)", ref="3/C17",
        note="RDKit canonicalisation idempotent and spelling-independent, Tanimoto/Dice symmetric into [0,1] (stub contracts); token pool of 7 with anagram pairs.",
        text="unsat of 'exists x != y with equal key' shows for all strings that the sort in normalize_smiles is a total order on distinct tokens, hence permutation-invariant; the real functions are then run on solver-chosen token selections and permutations: equal outputs, idempotence, similarity 1 for order variants, symmetry and range."),
    "C10": dict(technique="bounded symbolic execution of get_largest_condition per table shape with unbounded symbolic atom counts, and of MCSSearch.find with solver-chosen solved flags and search outcomes (CrossHair + z3)", ref="3/C10",
        note="Selection and attribution only. MolFromSmarts atom counts, ensemble_mcs and find_graph_dict are stubs; containment of the substructure and the molecule list are RDKit FindMCS and are outside the claim.",
        text="Every table shape of 3 conditions x n<=2 rows x 0..2 patterns is a partition with all pattern atom counts as unbounded solver integers: the retained entry is the entry object of a condition with the maximal total at that row, one per row in order, a unique non-zero maximum is always retained. MCSSearch.find on 4 rows with symbolic solved flags / search failures attaches to each reaction the record produced from its own entry (id map vs positional zip)."),
    "C06": dict(technique=PIPE_TECH + "; metamorphic comparison of groupings inside one symbolic path", ref="3/C06", note=PIPE_NOTE + " Stubs are keyed by reaction content so that the same reaction meets the same environment in every grouping; worker counts are outside.",
        text="The same two reactions are run as [r1,r2], [r2,r1], [r1], [r2] and as two batches of one in a single symbolic path (r1 symbolic, r2 a fixed representative of each outcome class): every row field is identical in all groupings and the statistics of a grouping equal the key-wise sum of its parts; merge_stats is proved as a kernel with unbounded integers and symbolic key presence."),
    "C11": dict(technique="bounded symbolic execution of the real MCS stage inside the pipeline with a thread-pool shim (timeouts, zombie completion at call boundaries) and failing job bodies; fault patterns enumerated as partitions, compositions symbolic (CrossHair + z3)", ref="3/C11",
        note=PIPE_NOTE + " ThreadPool (one worker thread per pool object, a timed-out job keeps it busy), MCSMissingGraphAnalyzer.fit and find_missing_parts_pairs are outcome stubs; pre-emption inside a call and worker processes are outside.",
        text="ensemble_mcs, single_mcs_safe, single_mcs, get_largest_condition, find_graph_dict and its per-pair wrapper, GraphMissingUncertainty, MCSSearch.find, impute_reaction and MCSBasedMethod.run are real code on the path. For each fault pattern of one row (search jobs ok/timeout/raise/uncertain/partial result with a None hole, analysis job ok/timeout/raise, merge ok/raise, zombie completing at one of 5 boundaries) and both row orders: no row lost, each row solved-and-balanced or unchanged with an issue, and the fault-free neighbour identical to the fault-free run."),
    "C12": dict(technique="bounded symbolic execution of rebalance/__rebalance_batch/__try_cache and CacheManager over an in-memory file system with a symbolic crash point per write() (CrossHair + z3)", ref="3/C12",
        note="Pipeline replaced by a pure function of (row, threshold); os/open of batching replaced by an in-memory FS (truncate-on-open, append-on-write); json and hashlib real. The three C12 defects found (stale entry under another configuration, truncated entry raises, entry of a nested directory raises) were repaired in /repo; no region is excluded any more.",
        text="Histories of 2 (thorough 3) runs with solver-chosen layouts, batch sizes, thresholds and confidences, optionally one run killed at the k-th write() of a cache entry (every prefix incl. empty and complete): also two caches nested in one another (cache/strict written first, cache used next and reverse) and statistics requested or not per run: every completed run returns rows and stats equal to the same call without cache and does not raise."),
    "C14": dict(technique=PIPE_TECH + "; two spellings of one reaction compared inside one symbolic path", ref="3/C14", note=PIPE_NOTE + " Equivalent spellings of abstract molecules are alias tokens; RDKit canonicalisation is outside. The substring-marker defect was repaired in /repo; the remaining known finding C14-given-marker-molecule-position-sensitive (a given OO/[H]/[O] molecule not first on its side) is excluded by region.",
        text="Permutations within a side, alias spellings, atom-map decoration and [HH] vs [H][H] of one reaction are run through the real pipeline with shared symbolic compositions: whenever one spelling ends input-balanced or rule-based the other ends with the same verdict, method and multiset of added molecules. The marker-substring tests of the rule constraint step run as real code on the real marker molecules."),
    "C20": dict(technique="bounded symbolic execution of standardize_enol / standardize_hemiketal on a fake molecule with symbolic atom numbering (CrossHair + z3)", ref="3/C20",
        note="Narrow claim: independence of the atom order only. Composition conservation, parsability, idempotence are RDKit and are not decided. The defect found (roles picked by index distance) was repaired in /repo; no region is excluded.",
        text="For every numbering of the three group atoms in a molecule of <= 8 atoms and every order of the index list, the recorded bond edits are exactly the tautomerisation on the atoms that truly play the roles and the error text is never returned; __call__ dispatches on the reported group (enol, hemiketal, phenol, ketone, enol ether, acetal with their arities), returns a SMILES and behaves the same on a second call of the same instance."),
    "C18": dict(technique=PIPE_TECH, ref="3/C18", note=PIPE_NOTE,
        text="Balancer.rebalance(stats=...) on one symbolic row and on two-row batches (second row a fixed representative of each outcome class, both orders, one or two batches): the five relations of the statement are recomputed by the harness from the returned rows and from a ghost record of the rows that entered the MCS stage."),
})

NOT_APPLICABLE = {
    "C09": "the claim is RDKit graph editing + sanitisation + canonicalisation (merge reconstructs the cut molecule); stubbing those calls removes exactly what is claimed and there is no SMT model of RDKit (DESIGN.md 4)",
    "C16": "labelled-graph matcher: no arithmetic for a solver, symbolic execution degenerates into one path per graph (4-atom probe not exhausted in 300 s); a direct SMT encoding would be a re-implementation (DESIGN.md 4)",
}

HOLD = set()  # claims written but not yet registered (not yet conclusive on the unchanged tree)
PENDING = "check under construction in this round; not claimed until it is conclusive on the unchanged tree"


def main():
    props = [json.loads(l) for l in open(os.path.join(ROOT, "properties.jsonl"))]
    checks = []
    na = []
    for p in props:
        pid = p["id"]
        if pid in CLAIMS and pid not in HOLD:
            c = CLAIMS[pid]
            checks.append({
                "property_id": pid,
                "quick_cmd": "bin/check %s --tier quick" % pid,
                "thorough_cmd": "bin/check %s --tier thorough" % pid,
                "evidence_file": "/verif/evidence/%s.json" % pid,
                "replay_cmd_template": "bin/check %s --replay {path}" % pid,
                "engine": c.get("engine", "xh"),
                "level_claimed": {"category": "other", "text": c["text"], "design_ref": "DESIGN.md " + c["ref"]},
                "level_note": c["note"],
                "technique": c["technique"],
            })
        else:
            na.append({"property_id": pid, "reason": NOT_APPLICABLE.get(pid, PENDING)})
    m = {
        "version": 1,
        "setup_cmd": "sh bin/setup.sh",
        "hooks": {
            "guard": "SYNRBL_VERIF",
            "enable": "no hooks: every patch point is a module attribute rebound by the harness process; /repo is imported from its working tree",
            "baseline_off_cmd": "cd /repo && /venv/bin/python -m pytest -ra -q -p no:cacheprovider --timeout=900 --continue-on-collection-errors",
            "source_commits": [],
            "add_only": True,
        },
        "engines": [
            {"name": "xh", "path": "vf/engine_xh.py", "serves_properties": sorted(k for k, v in CLAIMS.items() if v.get("engine", "xh") in ("xh", "xh+smt") and k not in HOLD),
             "kind_free_text": "symbolic execution of the real Python functions with CrossHair 0.0.110 + z3 5.1.0, partitions on a 16-process pool, verdict = path exhaustion"},
            {"name": "smt", "path": "vf/engine_smt.py", "serves_properties": sorted(k for k, v in CLAIMS.items() if v.get("engine") in ("smt", "xh+smt") and k not in HOLD),
             "kind_free_text": "z3 queries generated from the current source (regex literals via re._parser, sort-key lambda, tables), cvc5 cross-check on thorough"},
        ],
        "checks": checks,
        "not_applicable": na,
        "notes": "Solver-based checking of the real code. Known findings: known_findings.txt. Exit 3 = harness error (never a violation).",
    }
    with open(os.path.join(ROOT, "MANIFEST.json"), "w") as f:
        json.dump(m, f, indent=1)
    print("claims:", len(checks), "n/a:", len(na))


if __name__ == "__main__":
    main()
