#!/bin/sh
# usage: tools/try_mutant.sh <patch.diff> <tier> <PID> [<PID>...]   -- apply a seeded change to /repo, run checks, undo
patch=$(readlink -f "$1"); tier=$2; shift 2
cd /verif
git -C /repo diff --quiet || { echo "/repo not clean"; exit 2; }
git -C /repo apply "$patch" || { echo "patch does not apply"; exit 2; }
for p in "$@"; do
  out=$(bin/check $p --tier $tier 2>&1); rc=$?
  echo "== $p rc=$rc"; echo "$out" | grep -E "^(property=|VIOLATION|HARNESS-ERROR|KNOWN-FINDING|INCONCLUSIVE|  violation)" | cut -c1-400 | head -12
done
git -C /repo checkout -- .
git -C /repo status --short | head -3
