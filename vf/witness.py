"""Concrete witnesses of known findings, replayed against the REAL code (real RDKit, no stub world) in a fresh
interpreter.  `python -m vf.witness <finding-id>` prints one JSON object {id, reproduced, what, witness}."""
from __future__ import annotations

import json
import os
import subprocess
import sys

ROOT = os.path.dirname(os.path.dirname(os.path.abspath(__file__)))


def _quiet():
    import logging
    import warnings

    logging.disable(logging.CRITICAL)
    warnings.filterwarnings("ignore")
    from rdkit import RDLogger

    RDLogger.DisableLog("rdApp.*")


def _comp(s):
    from rdkit import Chem

    m = Chem.AddHs(Chem.MolFromSmiles(s))
    d = {}
    for a in m.GetAtoms():
        d[a.GetAtomicNum()] = d.get(a.GetAtomicNum(), 0) + 1
    d["q"] = Chem.GetFormalCharge(m)
    return d


def _balancer(**kw):
    from synrbl import Balancer

    return Balancer(n_jobs=1, **kw)


def w_C01_nonunit_reagent_template():
    rx = "CCO.O>>CC(=O)O"
    out = _balancer().rebalance([rx], output_dict=True)
    r = out[0]
    a, c = r["reaction"].split(">>")
    bad = bool(r["solved"]) and _comp(a) != _comp(c)
    return bad, "rebalance([%r]) -> solved=%s by %s, reaction %r: sides %s" % (rx, r["solved"], r.get("solved_by"), r["reaction"], "differ" if bad else "equal")


def w_C05_unparsable_row_dropped():
    rows = ["CCO>>CCO", "C(C>>CC", "CC>>CC"]
    out = _balancer().rebalance(rows, output_dict=True)
    got = [r["input_reaction"] for r in out]
    bad = got == ["CCO>>CCO", "CC>>CC"]
    return bad, "rebalance(%r) returned %d rows %r: the unparsable row is absent and the row after it moved up" % (rows, len(out), got)


def w_C05_bad_separator_loses_batch():
    import contextlib, io

    rows = ["CCO>>CCO", "CC.CC", "CC>>CC"]
    with contextlib.redirect_stderr(io.StringIO()):
        out = _balancer().rebalance(rows, output_dict=True)
        out2 = _balancer().rebalance(rows, output_dict=True, batch_size=1)
    bad = len(out) == 0 and [r["input_reaction"] for r in out2] == ["CCO>>CCO", "CC>>CC"]
    return bad, "rebalance(%r) returned %d rows (one batch) and %d rows with batch_size=1: can_parse raises on a string without exactly one '>>' and the whole batch is discarded" % (rows, len(out), len(out2))


def _hcount(smi):
    from rdkit import Chem

    m = Chem.MolFromSmiles(smi)
    return None if m is None else sum(a.GetTotalNumHs() for a in m.GetAtoms())


def w_C15_hydride():
    from synrbl.SynUtils.chem_utils import remove_atom_mapping

    res = []
    for smi in ("[PH5]", "C[SH2]C", "C[PH2](C)C", "[IH3]"):
        out = remove_atom_mapping(smi)
        res.append((smi, out, _hcount(smi), _hcount(out)))
    bad = all(a is not None and a != b for (_, _, a, b) in res)
    return bad, "remove_atom_mapping changes the molecule: " + "; ".join("%s -> %s (%s H -> %s H)" % r for r in res)


def w_C15_aromatic():
    from rdkit import Chem
    from synrbl.SynUtils.chem_utils import remove_atom_mapping

    smi = "c1ccccc:1"
    out = remove_atom_mapping(smi)
    bad = Chem.MolFromSmiles(smi) is not None and Chem.MolFromSmiles(out) is None
    return bad, "remove_atom_mapping(%r) = %r: the ring-closure digit after an aromatic-bond ':' is eaten; valid input, unparsable output" % (smi, out)


def _tmpdir():
    import tempfile

    d = os.path.join(ROOT, ".work")
    os.makedirs(d, exist_ok=True)
    return tempfile.mkdtemp(prefix="wit-", dir=d)


def w_C12_key():
    import shutil

    d = _tmpdir()
    try:
        rx = ["CC(=O)OCC>>CCO"]
        r0 = _balancer(cache=True, cache_dir=d, confidence_threshold=0).rebalance(rx, output_dict=True)
        r1 = _balancer(cache=True, cache_dir=d, confidence_threshold=1.0).rebalance(rx, output_dict=True)
        ref = _balancer(cache=False, confidence_threshold=1.0).rebalance(rx, output_dict=True)
        bad = r1[0]["solved"] != ref[0]["solved"] and r1[0]["solved"] == r0[0]["solved"]
        return bad, "same batch, threshold 0 then 1.0 over one cache directory: second run returns solved=%s (the cached row of the first run), without cache it returns solved=%s with issue %r" % (r1[0]["solved"], ref[0]["solved"], ref[0].get("issue"))
    finally:
        shutil.rmtree(d, ignore_errors=True)


def w_C12_trunc():
    import shutil

    d = _tmpdir()
    try:
        rx = ["CCO>>CCO"]
        _balancer(cache=True, cache_dir=d).rebalance(rx, output_dict=True)
        files = [os.path.join(d, f) for f in os.listdir(d)]
        data = open(files[0]).read()
        open(files[0], "w").write(data[: len(data) // 2])
        try:
            _balancer(cache=True, cache_dir=d).rebalance(rx, output_dict=True)
            return False, "no exception"
        except Exception as e:
            return True, "cache entry cut to half its length (a run killed inside json.dump): the next run raises %s out of Balancer.rebalance instead of treating the entry as a miss" % type(e).__name__
    finally:
        shutil.rmtree(d, ignore_errors=True)


def w_C20_enol():
    from synrbl.SynChemImputer.molecule_standardizer import MoleculeStandardizer

    st = MoleculeStandardizer()
    res = []
    for smi in ("C(O)=CC", "CC(O)=C"):
        try:
            res.append((smi, "returns %r" % st(smi)))
        except Exception as e:
            res.append((smi, "raises: %s" % str(e)[:110]))
    bad = all("Invalid atom indices" in r for _, r in res)
    return bad, "; ".join("MoleculeStandardizer()(%r) %s" % x for x in res)


def w_C14_marker():
    b = _balancer()
    res = []
    for rx in ("CC(=O)Cl.[H][H]>>CC=O", "[H][H].CC(=O)Cl>>CC=O", "CC(=O)Cl.[HH]>>CC=O"):
        r = b.rebalance([rx], output_dict=True)[0]
        res.append((rx, bool(r["solved"]), r.get("solved_by"), r["reaction"]))
    bad = (not res[0][1]) and res[1][1] and res[1][2] == "rule-based" and res[2][1] and res[2][2] == "rule-based"
    return bad, "; ".join("%s -> solved=%s by %s (%s)" % x for x in res)


def w_C14_given_peroxide():
    b = _balancer()
    res = []
    for rx in ("CC(=O)Cl.O.OO>>CC(=O)O.OO", "CC(=O)Cl.O.OO>>OO.CC(=O)O"):
        r = b.rebalance([rx], output_dict=True)[0]
        prod = sorted(r["reaction"].split(">>")[1].split("."))
        res.append((rx, bool(r["solved"]), r.get("solved_by"), r["reaction"], prod))
    bad = all(x[1] and x[2] == "rule-based" for x in res) and res[0][4] != res[1][4]
    return bad, "; ".join("%s -> solved=%s by %s (%s)" % x[:4] for x in res)


def w_C02_peroxide():
    rx = "CC(=O)Cl.O>>CC(=O)O.OO"
    r = _balancer().rebalance([rx], output_dict=True)[0]
    prod = r["reaction"].split(">>")[1].split(".")
    bad = bool(r["solved"]) and "OO" not in prod
    return bad, "rebalance([%r]) -> solved=%s by %s: %r -- the given product molecule OO is no longer on the product side" % (rx, r["solved"], r.get("solved_by"), r["reaction"])


def w_C12_nested():
    import shutil

    d = _tmpdir()
    try:
        rx = ["CCO>>CCO"]
        _balancer(cache=True, cache_dir=os.path.join(d, "strict")).rebalance(rx, output_dict=True)
        try:
            out = _balancer(cache=True, cache_dir=d).rebalance(rx, output_dict=True)
            return False, "outer run returned %d rows" % len(out)
        except Exception as e:
            return True, "a run with cache_dir=<d>/strict, then the same batch with cache_dir=<d>: the second run raises %s out of Balancer.rebalance" % type(e).__name__
    finally:
        shutil.rmtree(d, ignore_errors=True)


WITNESSES = {
    "C12-nested-cache-directory-raises": ("C12", w_C12_nested),
    "C14-substring-marker-order-sensitive": ("C14", w_C14_marker),
    "C14-given-marker-molecule-position-sensitive": ("C14", w_C14_given_peroxide),
    "C02-given-peroxide-rewritten": ("C02", w_C02_peroxide),
    "C20-enol-roles-by-index-distance": ("C20", w_C20_enol),
    "C12-cache-key-omits-configuration": ("C12", w_C12_key),
    "C12-truncated-entry-raises": ("C12", w_C12_trunc),
    "C15-hypervalent-hydride-unbracketed": ("C15", w_C15_hydride),
    "C15-aromatic-bond-before-ring-digit": ("C15", w_C15_aromatic),
    "C05-unparsable-row-dropped": ("C05", w_C05_unparsable_row_dropped),
    "C05-bad-separator-loses-batch": ("C05", w_C05_bad_separator_loses_batch),
    "C01-nonunit-reagent-template": ("C01", w_C01_nonunit_reagent_template),
}


def run_one(fid):
    _quiet()
    pid, fn = WITNESSES[fid]
    try:
        rep, what = fn()
    except Exception as e:  # a witness that crashes does not reproduce the finding as specified
        rep, what = False, "witness raised %r" % (e,)
    return {"id": fid, "property": pid, "reproduced": bool(rep), "what": what}


_STARTED = {}


def start_for(pid):
    if pid in _STARTED:
        return _STARTED[pid]
    procs = []
    env = dict(os.environ, PYTHONPATH=ROOT, PYTHONHASHSEED="0")  # fgutils results depend on the hash seed
    for fid, (p, _fn) in WITNESSES.items():
        if p == pid:
            procs.append((fid, subprocess.Popen([sys.executable, "-m", "vf.witness", fid], stdout=subprocess.PIPE, stderr=subprocess.DEVNULL, env=env, cwd=ROOT)))
    _STARTED[pid] = procs
    return procs


def run_for(pid):
    out = []
    procs = start_for(pid)
    for fid, pr in procs:
        so, _ = pr.communicate(timeout=1800)
        line = [l for l in so.decode().splitlines() if l.startswith("{")]
        if not line:
            out.append({"id": fid, "property": pid, "reproduced": False, "what": "witness produced no output"})
        else:
            out.append(json.loads(line[-1]))
    return out


def run_for_id(fid):
    """Replay one witness in a fresh interpreter (used by --replay)."""
    env = dict(os.environ, PYTHONPATH=ROOT, PYTHONHASHSEED="0")
    so = subprocess.run([sys.executable, "-m", "vf.witness", fid], stdout=subprocess.PIPE, stderr=subprocess.DEVNULL, env=env, cwd=ROOT, timeout=1800).stdout
    line = [l for l in so.decode().splitlines() if l.startswith("{")]
    return json.loads(line[-1]) if line else {"id": fid, "reproduced": False, "what": "witness produced no output"}


if __name__ == "__main__":
    print(json.dumps(run_one(sys.argv[1])))
