"""Concrete witnesses of known findings, replayed against the REAL code (real RDKit, no stub world) in a fresh
interpreter.  `python -m vf.witness <finding-id>` prints one JSON object {id, reproduced, what, witness}."""
from __future__ import annotations

import json
import os
import subprocess
import sys

ROOT = os.path.dirname(os.path.dirname(os.path.abspath(__file__)))


def _quiet():
    import logging
    import warnings

    logging.disable(logging.CRITICAL)
    warnings.filterwarnings("ignore")
    from rdkit import RDLogger

    RDLogger.DisableLog("rdApp.*")


def _comp(s):
    from rdkit import Chem

    m = Chem.AddHs(Chem.MolFromSmiles(s))
    d = {}
    for a in m.GetAtoms():
        d[a.GetAtomicNum()] = d.get(a.GetAtomicNum(), 0) + 1
    d["q"] = Chem.GetFormalCharge(m)
    return d


def _balancer(**kw):
    from synrbl import Balancer

    return Balancer(n_jobs=1, **kw)


def w_C01_nonunit_reagent_template():
    rx = "CCO.O>>CC(=O)O"
    out = _balancer().rebalance([rx], output_dict=True)
    r = out[0]
    a, c = r["reaction"].split(">>")
    bad = bool(r["solved"]) and _comp(a) != _comp(c)
    return bad, "rebalance([%r]) -> solved=%s by %s, reaction %r: sides %s" % (rx, r["solved"], r.get("solved_by"), r["reaction"], "differ" if bad else "equal")


def w_C05_unparsable_row_dropped():
    rows = ["CCO>>CCO", "C(C>>CC", "CC>>CC"]
    out = _balancer().rebalance(rows, output_dict=True)
    got = [r["input_reaction"] for r in out]
    bad = got == ["CCO>>CCO", "CC>>CC"]
    return bad, "rebalance(%r) returned %d rows %r: the unparsable row is absent and the row after it moved up" % (rows, len(out), got)


def w_C05_bad_separator_loses_batch():
    import contextlib, io

    rows = ["CCO>>CCO", "CC.CC", "CC>>CC"]
    with contextlib.redirect_stderr(io.StringIO()):
        out = _balancer().rebalance(rows, output_dict=True)
        out2 = _balancer().rebalance(rows, output_dict=True, batch_size=1)
    bad = len(out) == 0 and [r["input_reaction"] for r in out2] == ["CCO>>CCO", "CC>>CC"]
    return bad, "rebalance(%r) returned %d rows (one batch) and %d rows with batch_size=1: can_parse raises on a string without exactly one '>>' and the whole batch is discarded" % (rows, len(out), len(out2))


def _hcount(smi):
    from rdkit import Chem

    m = Chem.MolFromSmiles(smi)
    return None if m is None else sum(a.GetTotalNumHs() for a in m.GetAtoms())


def w_C15_hydride():
    from synrbl.SynUtils.chem_utils import remove_atom_mapping

    res = []
    for smi in ("[PH5]", "C[SH2]C", "C[PH2](C)C", "[IH3]"):
        out = remove_atom_mapping(smi)
        res.append((smi, out, _hcount(smi), _hcount(out)))
    bad = all(a is not None and a != b for (_, _, a, b) in res)
    return bad, "remove_atom_mapping changes the molecule: " + "; ".join("%s -> %s (%s H -> %s H)" % r for r in res)


def w_C15_aromatic():
    from rdkit import Chem
    from synrbl.SynUtils.chem_utils import remove_atom_mapping

    smi = "c1ccccc:1"
    out = remove_atom_mapping(smi)
    bad = Chem.MolFromSmiles(smi) is not None and Chem.MolFromSmiles(out) is None
    return bad, "remove_atom_mapping(%r) = %r: the ring-closure digit after an aromatic-bond ':' is eaten; valid input, unparsable output" % (smi, out)


WITNESSES = {
    "C15-hypervalent-hydride-unbracketed": ("C15", w_C15_hydride),
    "C15-aromatic-bond-before-ring-digit": ("C15", w_C15_aromatic),
    "C05-unparsable-row-dropped": ("C05", w_C05_unparsable_row_dropped),
    "C05-bad-separator-loses-batch": ("C05", w_C05_bad_separator_loses_batch),
    "C01-nonunit-reagent-template": ("C01", w_C01_nonunit_reagent_template),
}


def run_one(fid):
    _quiet()
    pid, fn = WITNESSES[fid]
    try:
        rep, what = fn()
    except Exception as e:  # a witness that crashes does not reproduce the finding as specified
        rep, what = False, "witness raised %r" % (e,)
    return {"id": fid, "property": pid, "reproduced": bool(rep), "what": what}


_STARTED = {}


def start_for(pid):
    if pid in _STARTED:
        return _STARTED[pid]
    procs = []
    env = dict(os.environ, PYTHONPATH=ROOT)
    for fid, (p, _fn) in WITNESSES.items():
        if p == pid:
            procs.append((fid, subprocess.Popen([sys.executable, "-m", "vf.witness", fid], stdout=subprocess.PIPE, stderr=subprocess.DEVNULL, env=env, cwd=ROOT)))
    _STARTED[pid] = procs
    return procs


def run_for(pid):
    out = []
    procs = start_for(pid)
    for fid, pr in procs:
        so, _ = pr.communicate(timeout=1800)
        line = [l for l in so.decode().splitlines() if l.startswith("{")]
        if not line:
            out.append({"id": fid, "property": pid, "reproduced": False, "what": "witness produced no output"})
        else:
            out.append(json.loads(line[-1]))
    return out


if __name__ == "__main__":
    print(json.dumps(run_one(sys.argv[1])))
