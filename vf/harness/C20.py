"""C20 -- tautomer standardisation: independence of the atom order (narrow claim, DESIGN.md 3/C20).

Composition conservation, parsability and idempotence are RDKit bond editing + sanitisation and are outside."""
from __future__ import annotations

import itertools

from vf import kf
from vf.engine_xh import Part

import synrbl.SynChemImputer.molecule_standardizer as _ms
from synrbl.SynChemImputer.molecule_standardizer import MoleculeStandardizer

PART = {}
H = "vf.harness.C20:"
KF_ENOL = "C20-enol-roles-by-index-distance"

ENCODES = [
    "synrbl.SynChemImputer.molecule_standardizer:MoleculeStandardizer.__call__",
    "synrbl.SynChemImputer.molecule_standardizer:MoleculeStandardizer.standardize_enol",
    "synrbl.SynChemImputer.molecule_standardizer:MoleculeStandardizer.standardize_hemiketal",
]
EXPLANATION = (
    "The real standardize_enol / standardize_hemiketal run under CrossHair on a fake molecule whose atom indices are "
    "solver variables (three distinct indices in 0..n-1, n <= 8, any order of the index list handed over by the "
    "functional-group query); the fake EditableMol records the bond edits. For every numbering the edits must be "
    "exactly {remove C=C, remove C-O, add C-C single, add C=O} on the atoms that truly play these roles (the harness "
    "knows which carbon carries the oxygen), and the error string must never be returned for a genuine group."
)
BOUNDS = ["n <= 6 atoms on the quick tier, n <= 8 on the thorough tier (dispatch harness: n <= 5 / 6), three distinct symbolic indices, all 6 orders of the index list; one group per call; dispatch: one functional group out of {enol, hemiketal, phenol, ketone, enol_ether, acetal} reported by the query, the same molecule standardised twice on one instance"]
STUBS = ["FGQuery.get -> one solver-chosen group with solver-chosen atom indices, a fresh list per call; CanonSmiles -> identity on SMILES, raises on an error text", "Chem.MolFromSmiles -> fake molecule with symbolic numbering and the bonds of the group (GetAtomWithIdx, GetBondBetweenAtoms); Chem.EditableMol -> edit recorder; SanitizeMol -> no-op; MolToSmiles -> marker string"]
OUTSIDE = ["composition and charge conservation, parsability of the result, idempotence, charged species, several groups on one carbon, hemiketals with an ether oxygen (RDKit bond editing / sanitisation)"]
ASSUMPTIONS = STUBS

PERMS = list(itertools.permutations(range(3)))


class _Atom:
    def __init__(self, sym):
        self.sym = sym
        self.explicit_h = None

    def GetSymbol(self):
        return self.sym

    def SetNumExplicitHs(self, n):
        self.explicit_h = n


class _Mol:
    def __init__(self, n, syms, bonds=()):
        self.atoms = [_Atom(syms.get(i, "C")) for i in range(n)]
        self.bonds = [(a, b) if a <= b else (b, a) for a, b in bonds]

    def GetAtomWithIdx(self, i):
        return self.atoms[i]

    def GetBondBetweenAtoms(self, i, j):
        k = (i, j) if i <= j else (j, i)
        for b in self.bonds:
            if b == k:
                return b
        return None


class _EMol:
    def __init__(self, mol):
        self.mol = mol
        self.edits = []

    def RemoveBond(self, a, b):
        self.edits.append(("rm", a, b, None))

    def AddBond(self, a, b, order=None):
        self.edits.append(("add", a, b, order))

    def GetMol(self):
        return self


class _BT:
    SINGLE = "SINGLE"
    DOUBLE = "DOUBLE"


class _rdchem:
    BondType = _BT


_CUR = {}


class _Chem:
    rdchem = _rdchem

    @staticmethod
    def MolFromSmiles(s):
        return _CUR["mol"]

    @staticmethod
    def EditableMol(mol):
        e = _EMol(mol)
        _CUR["emol"] = e
        return e

    @staticmethod
    def SanitizeMol(m):
        return None

    @staticmethod
    def MolToSmiles(m):
        return "FIXED"

    @staticmethod
    def CanonSmiles(s):
        if s not in ("S0", "FIXED"):
            raise ValueError("RDKit was unable to parse SMILES %r" % (s,))
        return s


if not hasattr(_ms, "Chem"):
    raise RuntimeError("patch point missing: molecule_standardizer.Chem")


def _pair(a, b):
    return (a, b) if a <= b else (b, a)


def h_enol(n: int, c1: int, c2: int, o: int, perm: int) -> bool:
    """
    pre: 3 <= n <= 8 and 0 <= perm < 6
    pre: 0 <= c1 < n and 0 <= c2 < n and 0 <= o < n
    pre: c1 != c2 and c1 != o and c2 != o
    post: _
    """
    _ms.Chem = _Chem
    perm = PART.get("perm", perm)
    if n > PART.get("nmax", 8):
        return True
    # c2 carries the oxygen: C1=C2-O
    _CUR["mol"] = _Mol(n, {o: "O"}, bonds=[(c1, c2), (c2, o)])
    _CUR["emol"] = None
    roles = [c1, c2, o]
    idx = [roles[i] for i in PERMS[perm]]
    in_region = not (abs(c2 - o) == 1 and abs(c1 - o) != 1)
    tw = PART.get("twin")
    out = MoleculeStandardizer.standardize_enol("enol", idx)
    if tw == "outside":
        return in_region
    if tw == "inside":
        return not in_region
    if in_region and kf.active(KF_ENOL):
        # known finding: roles are picked by |index - o_idx| == 1.  Specified deviation: the error string, or the
        # two carbons swapped; never an exception
        return isinstance(out, str)
    if out != "FIXED":
        return False
    e = _CUR["emol"].edits
    want = [("rm", _pair(c1, c2), None), ("rm", _pair(c2, o), None), ("add", _pair(c1, c2), "SINGLE"), ("add", _pair(c2, o), "DOUBLE")]
    got = [(k, _pair(a, b), order) for (k, a, b, order) in e]
    return got == want


def h_hemiketal(n: int, c: int, oa: int, ob: int, perm: int) -> bool:
    """
    pre: 3 <= n <= 8 and 0 <= perm < 6
    pre: 0 <= c < n and 0 <= oa < n and 0 <= ob < n
    pre: c != oa and c != ob and oa != ob
    post: _
    """
    _ms.Chem = _Chem
    perm = PART.get("perm", perm)
    if n > PART.get("nmax", 8):
        return True
    mol = _Mol(n, {oa: "O", ob: "O"}, bonds=[(c, oa), (c, ob)])
    _CUR["mol"] = mol
    _CUR["emol"] = None
    roles = [c, oa, ob]
    idx = [roles[i] for i in PERMS[perm]]
    out = MoleculeStandardizer.standardize_hemiketal("gem-diol", idx)
    if PART.get("twin"):
        return out != "FIXED"
    if out != "FIXED":
        return False
    got = [(k, _pair(a, b), order) for (k, a, b, order) in _CUR["emol"].edits]
    # both C-O bonds removed, exactly one C=O formed; that oxygen loses its explicit H, the other becomes water
    for first, second in ((oa, ob), (ob, oa)):
        want = [("rm", _pair(c, first), None), ("rm", _pair(c, second), None), ("add", _pair(c, first), "DOUBLE")]
        if got == want:
            return mol.atoms[first].explicit_h == 0 and mol.atoms[second].explicit_h == 2
    return False


GROUPS = ["enol", "hemiketal", "phenol", "ketone", "enol_ether", "acetal"]


class _Query:
    """FGQuery stand-in: one functional group on the original molecule, none on the rewritten one; a fresh list per
    call (the library's contract)."""

    def __init__(self, name, idx):
        self.name, self.idx = name, idx

    def get(self, smiles):
        if smiles == "S0":
            return [(self.name, list(self.idx))]
        return []


def h_call(g: int, n: int, a: int, b: int, c: int, perm: int) -> bool:
    """
    pre: 0 <= g < 6 and 4 <= n <= 8 and 0 <= perm < 6
    pre: 0 <= a < n and 0 <= b < n and 0 <= c < n and a != b and a != c and b != c
    post: _
    """
    _ms.Chem = _Chem
    g = PART.get("g", g)
    if n > PART.get("nmax", 5):
        return True
    name = GROUPS[g]
    if name == "hemiketal":
        mol = _Mol(n, {b: "O", c: "O"}, bonds=[(a, b), (a, c)])
    else:
        mol = _Mol(n, {c: "O"}, bonds=[(a, b), (b, c)])
        # keep the enol outside the known index-distance region: the oxygen-bearing carbon b is adjacent to o
        if name == "enol" and kf.active(KF_ENOL) and not (abs(b - c) == 1 and abs(a - c) != 1):
            return True
    _CUR["mol"] = mol
    roles = [a, b, c]
    idx = [roles[i] for i in PERMS[perm]]
    # the query reports as many atoms as the group's pattern has: phenol / ketone are C-O pairs
    if name in ("phenol", "ketone"):
        idx = [i for i in idx if i != a]
    st = MoleculeStandardizer.__new__(MoleculeStandardizer)
    st.query = _Query(name, idx)
    outs = []
    for _ in range(2):  # the Balancer keeps one instance: the same molecule may come twice
        _CUR["emol"] = None
        outs.append((st("S0"), _CUR["emol"].edits if _CUR["emol"] else []))
    if PART.get("twin"):
        return outs[0][0] == "S0"
    # an enol / gem-diol is rewritten; whatever the group, the result is a SMILES (never an error text, never an
    # exception), and the second call on the same instance behaves like the first
    for out, edits in outs:
        if out not in ("S0", "FIXED"):
            return False
        if name in ("enol", "hemiketal") and (out != "FIXED" or not edits):
            return False
    return outs[0] == outs[1]


def plan(tier):
    P = []
    nmax = 8 if tier == "thorough" else 6
    for perm in range(6):
        P.append(Part(H + "h_enol", {"perm": perm, "nmax": nmax}, "enol[order %d,n<=%d]" % (perm, nmax), group="enol", timeout=1800))
        P.append(Part(H + "h_hemiketal", {"perm": perm, "nmax": nmax}, "hemiketal[order %d,n<=%d]" % (perm, nmax), group="hemiketal", timeout=1800))
    for g in range(len(GROUPS)):
        P.append(Part(H + "h_call", {"g": g, "nmax": 6 if tier == "thorough" else 5}, "call[%s]" % GROUPS[g], group="dispatch", timeout=1800))
    P.append(Part(H + "h_call", {"twin": 1}, "call.twin", kind="twin", group="dispatch", timeout=300))
    P.append(Part(H + "h_enol", {"twin": "outside"}, "enol.twin[outside region reachable]", kind="twin", group="enol", timeout=300))
    P.append(Part(H + "h_enol", {"twin": "inside"}, "enol.twin[inside region reachable]", kind="twin", group="enol", timeout=300))
    P.append(Part(H + "h_hemiketal", {"twin": 1}, "hemiketal.twin", kind="twin", group="hemiketal", timeout=300))
    return P


def extra(tier):
    from vf.harness import pipecore as pc

    return {"obligations": [], "findings": pc.witness_findings("C20")}
