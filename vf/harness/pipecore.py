"""Shared pipeline-level harness (DESIGN.md 3, "pipeline harness").

One symbolic run of the real Balancer pipeline on the stub world of vf.world.pipe.
The harness functions of C01..C06, C14, C18 call `explore()` and then apply their own oracle.

Symbolic inputs (all bounded in the harness body, out-of-bound values return True = vacuous):
  per abstract token t in (j,q,w,x) and per merge-result token (jj,ww): counts tC,tH,tO in 0..K, charge tq in -1..1
  m1,m2   MCS-stage outcome of row 1 / row 2 (0 search failed, 1 graph analysis failed, 2 empty compound set,
          3 merge raises, 4 merge returns token jj / ww)
  f1,f2   functional-group lookup outcome (index into pipe.FG_CHOICES) for every reaction string of row 1 / row 2
  c1,c2   confidence model output for row 1 / row 2, thr threshold: integers 0..4 read as quarters
Concrete per partition (PART): the reaction strings ("shape"), the element set E, K, whether thr is symbolic.
"""
from __future__ import annotations

from typing import Any, Dict, List

from vf.world import pipe
from vf.world.pipe import W, Tok

ABS = ("j", "q", "w", "x")
MERGE = ("jj", "ww")

ENCODES_PIPE = [
    "synrbl.balancing:Balancer._Balancer__run_pipeline",
    "synrbl.balancing:Balancer._Balancer__post_process",
    "synrbl.preprocess:preprocess",
    "synrbl.SynProcessor.rsmi_processing:RSMIProcessing.data_splitter",
    "synrbl.SynProcessor.rsmi_processing:RSMIProcessing.can_parse",
    "synrbl.postprocess:Validator.check",
    "synrbl.SynUtils.common:update_reactants_and_products",
    "synrbl.SynProcessor.rsmi_decomposer:RSMIDecomposer.data_decomposer",
    "synrbl.SynProcessor.rsmi_comparator:RSMIComparator.compare_dicts",
    "synrbl.SynProcessor.rsmi_comparator:RSMIComparator.diff_dicts",
    "synrbl.SynProcessor.rsmi_comparator:RSMIComparator.run_parallel",
    "synrbl.SynProcessor.check_carbon_balance:CheckCarbonBalance.process_reaction",
    "synrbl.SynProcessor.check_carbon_balance:CheckCarbonBalance.check_carbon_balance",
    "synrbl.SynProcessor.rsmi_both_side_process:BothSideReact.fit",
    "synrbl.SynProcessor.rsmi_both_side_process:BothSideReact.enforce_product_side",
    "synrbl.SynProcessor.rsmi_both_side_process:BothSideReact.reverse_values_if_negative_except_Q",
    "synrbl.rule_based:RuleBasedMethod.run",
    "synrbl.rsmi_utils:filter_data",
    "synrbl.rsmi_utils:extract_results_by_key",
    "synrbl.SynRuleImputer.synthetic_rule_imputer:SyntheticRuleImputer.single_impute",
    "synrbl.SynRuleImputer.synthetic_rule_imputer:SyntheticRuleImputer.get_and_validate_smiles",
    "synrbl.SynRuleImputer.synthetic_rule_matcher:SyntheticRuleMatcher.match",
    "synrbl.SynRuleImputer.synthetic_rule_matcher:SyntheticRuleMatcher.dfs",
    "synrbl.SynRuleImputer.synthetic_rule_matcher:SyntheticRuleMatcher.apply_rule",
    "synrbl.SynRuleImputer.synthetic_rule_constraint:RuleConstraint.reduction_oxidation_rules_modify",
    "synrbl.SynRuleImputer.synthetic_rule_constraint:RuleConstraint.remove_banned_reactions",
    "synrbl.mcs_search:MCSSearch.find",
    "synrbl.SynMCSImputer.SubStructure.extract_common_mcs:ExtractMCS.get_largest_condition",
    "synrbl.SynMCSImputer.mcs_based_method:MCSBasedMethod.run",
    "synrbl.SynMCSImputer.mcs_based_method:impute_reaction",
    "synrbl.SynChemImputer.post_process:PostProcess.fit",
    "synrbl.SynChemImputer.post_process:PostProcess.label_reactions",
    "synrbl.SynChemImputer.curate_oxidation:CurationOxidation.process_ox_template",
    "synrbl.SynChemImputer.curate_reduction:CurationReduction.process_reduct_template",
    "synrbl.confidence_prediction:ConfidencePredictor.predict",
    "synrbl.SynAnalysis.analysis_utils:count_boundary_atoms_products_and_calculate_changes",
]

STUBS_PIPE = [
    "joblib.Parallel/delayed -> sequential shim (results in submission order); worker counts and process schedules are outside the claim",
    "pandas -> the real pandas, each call executed with CrossHair tracing suspended",
    "RSMIDecomposer.decompose -> world lookup: composition/charge additive over '.', {} for an unparsable string (kernel proved in C07)",
    "CheckCarbonBalance.count_atoms, is_carbon_balanced -> world carbon counts (kernels proved in C07)",
    "Chem.MolFromSmiles/CanonSmiles in can_parse, get_and_validate_smiles, label_reactions -> validity lookup; a mixture is valid iff every component is",
    "ensemble_mcs / find_graph_dict / build_compounds / merge / MoleculeStandardizer -> outcome stubs: search fails, graph analysis fails, empty compound set, merge raises, or merge returns one complete-molecule token of arbitrary composition",
    "find_functional_reactivity -> any of 8 functional-group outcomes (one per distinct first template of the curation tables + none + unlisted group); count_radical_atoms -> number of '[H]'/'[O]' tokens",
    "xgboost model, numpy rounding, calculate_chemical_properties -> arbitrary confidence per reaction (and a different value if the real count_boundary_atoms_products_and_calculate_changes hands the model another row's feature values); threshold passed as a comparable object that formats to a placeholder",
    "rule database restricted to the shipped records for [H], O, [O], [H+], [Na+], [Cl-] (the full database is covered by the C08 step queries)",
    "a string obtained by corrupting an abstract molecule (e.g. 'q[H]') is not a molecule in the world",
]


def bounded(v, lo, hi):
    return lo <= v <= hi


def setup_world(PART, a: Dict[str, Any]):
    """Populate W from the symbolic arguments; returns False if some used argument is out of bounds."""
    E = PART.get("E", ["C", "H"])
    K = PART.get("K", 2)
    shape = PART["shape"]
    text = " ".join(shape)
    pipe.reset_world(E)
    used = [t for t in ABS if t in text or (t + "x") in text]
    for t in used:
        comp = {}
        for el in E:
            v = a[t + el]
            if not bounded(v, 0, PART.get("K" + el, K)):
                return False
            comp[el] = v
        qv = a[t + "q"]
        if not bounded(qv, -1, 1):
            return False
        if sum(comp.values()) < 1:
            return False  # a molecule has at least one atom
        W.tok[t] = Tok(comp, qv, t not in (PART.get("invalid") or ()))
    for al, base in ALIAS.items():
        if base in W.tok:
            W.tok[al] = W.tok[base]  # same molecule, other spelling: same composition, charge, validity
    modes = [a["m1"], a["m2"]]
    fgs = [a["f1"], a["f2"]]
    confs = [a["c1"], a["c2"]]
    for i, rx in enumerate(shape[:2]):
        m = modes[i]
        if not bounded(m, 0, 4):
            return False
        W.mcs[rx] = m
        mt = MERGE[i]
        W.merge_tok[rx] = mt
        W.conf[rx] = confs[i]
    # merge tokens are only looked at when a merge succeeds; bound lazily through Tok objects
    for i, mt in enumerate(MERGE):
        comp = {el: a[mt + el] for el in E}
        W.tok[mt] = Tok(comp, a[mt + "q"], True)
    W.ghost["fg_by_row"] = fgs
    W.fg_default = 0
    return True


def merge_in_bounds(PART, a, i):
    E = PART.get("E", ["C", "H"])
    K = PART.get("K", 2)
    mt = MERGE[i]
    tot = 0
    for el in E:
        if not bounded(a[mt + el], 0, K):
            return False
        tot = tot + a[mt + el]
    return bounded(a[mt + "q"], -1, 1) and tot >= 1


ALIAS = {"jx": "j", "qx": "q", "wx": "w"}  # second spellings of the abstract molecules (C14)


def _abs_key(reaction_smiles):
    parts = reaction_smiles.split(">>")
    left = sorted(ALIAS.get(t, t) for t in parts[0].split(".") if ALIAS.get(t, t) in ABS)
    right = sorted(ALIAS.get(t, t) for t in parts[1].split(".") if ALIAS.get(t, t) in ABS) if len(parts) > 1 else []
    return (tuple(left), tuple(right))


class FgByRow:
    """functional-group outcome of a reaction string = that of the input row with the same abstract molecules
    (curation and completion never move the given molecules; rows with equal molecule sets share the outcome)."""

    def __init__(self, shape, fgs):
        self.keys = [_abs_key(rx) for rx in shape[:2]]
        self.fgs = fgs

    def get(self, reaction_smiles, default):
        k = _abs_key(reaction_smiles)
        for i, kk in enumerate(self.keys):
            if kk == k:
                return self.fgs[i]
        return default


def explore(PART, a, thr=None, rows=None, via_rebalance=False, batch_size=None):
    """Run the real pipeline once.  Returns (out_rows, stats) or None if inputs are out of bounds."""
    for k, v in (PART.get("fix") or {}).items():
        a[k] = v
    if not setup_world(PART, a):
        return None
    for i in range(len(MERGE)):
        if not merge_in_bounds(PART, a, i):
            return None
    if not (bounded(a["f1"], 0, len(pipe.FG_CHOICES) - 1) and bounded(a["f2"], 0, len(pipe.FG_CHOICES) - 1)):
        return None
    # confidences and threshold are integers in 0..CONF_STEPS, read as multiples of 1/CONF_STEPS (no symbolic
    # floats in pipeline harnesses: the real-valued comparison is the C13 kernel)
    if not (bounded(a["c1"], 0, CONF_STEPS) and bounded(a["c2"], 0, CONF_STEPS)):
        return None
    if thr is not None and not bounded(thr, 0, CONF_STEPS):
        return None
    W.fg = FgByRow(PART["shape"], [a["f1"], a["f2"]])
    t = 0
    if thr is not None:
        t = pipe.Thr(thr, "t")
    b = pipe.balancer(threshold=t, batch_size=batch_size)
    rows = rows if rows is not None else input_rows(PART)
    stats: Dict[str, Any] = {}
    if via_rebalance:
        out = b.rebalance(rows, output_dict=True, stats=stats, batch_size=batch_size)
    else:
        out = pipe.run_pipeline(b, rows, stats)
    return out, stats


CONF_STEPS = 4

ARGNAMES = (
    [t + s for t in ABS for s in ("C", "H", "O", "q")]
    + [t + s for t in MERGE for s in ("C", "H", "O", "q")]
    + ["m1", "m2", "f1", "f2"]
)


def is_nan(v):
    return isinstance(v, float) and v != v


def issue_text(row):
    v = row.get("issue")
    if v is None or is_nan(v):
        return ""
    return v


def curated_ids(nonunit_only=False):
    """ids of rows for which post-processing returned a curated reaction (ghost taken at PostProcess.fit)."""
    out = {}
    for r in W.ghost.get("pp", []):
        if r.get("label") != "unspecified" and "curated_reaction" in r:
            st = r.get("stoichiometric")
            unit = st is None or all(x == 1 for x in st)
            if nonunit_only and unit:
                continue
            out[r["id"]] = r
    return out


BOUNDS_PIPE = [
    "rows: 1 or 2 reactions per run; per side <= 3 molecules; abstract molecules j,q,w,x with element counts 0..K (K=2 unless the partition says otherwise) over E (E={C,H} or {C,H,O}), at least one atom, charge -1..1",
    "merge-result molecules jj/ww: same ranges; MCS outcome in 5 classes; functional-group outcome in 8 classes (one per distinct behaviour of the curation code); confidence and threshold in {0, 1/4, 1/2, 3/4, 1} (arbitrary reals are covered by the C13 kernel)",
    "real marker molecules in the shapes: O, [H][H], OO, and the atomic-hydrogen placeholder [H] (their true compositions from RDKit)",
]
OUTSIDE_PIPE = [
    "RDKit itself (parsing, AddHs, canonicalisation, FindMCS, merge chemistry), joblib worker pools, xgboost",
    "counts above K, more than 2 rows, more than 4 abstract molecules per run, elements beyond E for abstract molecules",
    "what a corrupted SMILES string denotes in real RDKit (in the world it is not a molecule)",
]

# (shape, K, charge-free tokens).  Single-molecule sides use K=2 (parity of H, two units of every multiplicity
# branch); shapes with three or four abstract molecules use K=1.
SHAPES = {
    "j>>q": (["j>>q"], 2),
    "j>>q.[H][H]": (["j>>q.[H][H]"], 2),
    "j.[H][H]>>q": (["j.[H][H]>>q"], 2),
    "j>>q.O": (["j>>q.O"], 2),
    "j.O>>q": (["j.O>>q"], 2),
    "j>>q.OO": (["j>>q.OO"], 2),
    "j.OO>>q": (["j.OO>>q"], 2),
    "j.j>>q": (["j.j>>q"], 2),
    "j>>q.q": (["j>>q.q"], 2),
    "j.w>>q": (["j.w>>q"], 1),
    "j.[H].[H]>>q": (["j.[H].[H]>>q"], 2),
    "j>>q.w": (["j>>q.w"], 1),
}
SHAPES_Q = ["j>>q"]
SHAPES_Q2 = ["j>>q.[H][H]", "j.w>>q"]  # quick: only MCS modes 0 and 4
SHAPES_T = list(SHAPES)


def _parts_for(shape_name, modes, E=("C", "H"), tag=""):
    shape, K = SHAPES[shape_name]
    out = []
    for m in modes:
        if m == 4:
            for jq in (-1, 0, 1):
                for qq in (-1, 0, 1):
                    if len(E) > 2:
                        # three elements: split the merge-result space as well (charge and oxygen count of jj)
                        for jjq in (-1, 0, 1):
                            for jjo in (0, 1, 2):
                                out.append(("pipe[%s|%sm=%d,jq=%d,qq=%d,jjq=%d,jjO=%d]" % (shape_name, tag, m, jq, qq, jjq, jjo),
                                            {"shape": shape, "E": list(E), "K": K, "fix": {"m1": m, "jq": jq, "qq": qq, "jjq": jjq, "jjO": jjo}}, "prop"))
                        continue
                    out.append(("pipe[%s|%sm=%d,jq=%d,qq=%d]" % (shape_name, tag, m, jq, qq),
                                {"shape": shape, "E": list(E), "K": K, "fix": {"m1": m, "jq": jq, "qq": qq}}, "prop"))
        else:
            for jq in (-1, 0, 1):
                out.append(("pipe[%s|%sm=%d,jq=%d]" % (shape_name, tag, m, jq),
                            {"shape": shape, "E": list(E), "K": K, "fix": {"m1": m, "jq": jq}}, "prop"))
    return out


def partitions(tier, pid):
    """(name, params, kind) for the shared single-row exploration."""
    out = []
    if tier == "thorough":
        for sn in SHAPES_T:
            if sn == "j.[H].[H]>>q" and pid != "C04":
                continue
            out += _parts_for(sn, range(5))
        out += _parts_for("j>>q", (0, 4), E=("C", "H", "O"), tag="CHO,")
    else:
        for sn in SHAPES_Q:
            out += _parts_for(sn, (0, 2, 4))
        for sn in SHAPES_Q2:
            out += _parts_for(sn, (0,))
    if tier != "thorough" and pid == "C04":
        # balanced-or-not input that carries atomic-hydrogen placeholders (C04 quantifies over all balanced reactions;
        # C01-C03 over closed-shell molecules without free placeholders)
        out.append(("pipe[j.[H].[H]>>q|m=0,jq=0]", {"shape": ["j.[H].[H]>>q"], "E": ["C", "H"], "K": 2, "fix": {"m1": 0, "jq": 0, "qq": 0}}, "prop"))
    # hydrogen counts up to 4 with carbon fixed: the multiplicity > 1 branches ('.[O]' * n, one template per [O])
    out.append(("pipe[j>>q|H<=4,m=0]", {"shape": ["j>>q"], "E": ["C", "H"], "K": 2, "KH": 4, "fix": {"m1": 0, "jq": 0, "qq": 0, "jC": 1, "qC": 1}}, "prop"))
    # two rows in one batch (id/index plumbing between stages)
    for name, params, kind in partitions2(tier, pid):
        if tier == "thorough" or (("row2=input-balanced" in name or "row2=mcs-fail" in name) and "m1=0" in name):
            out.append((name, params, kind))
    return out


def witness_findings(pid):
    """Replay the concrete witnesses of the listed findings of `pid` on the real code (real RDKit, no stubs,
    fresh interpreter)."""
    from vf import witness

    return witness.run_for(pid)


# ---- two-row partitions: row 1 symbolic (j>>q), row 2 (w>>x) a fixed representative of each outcome class
ROW2 = {
    "input-balanced": {"wC": 1, "wH": 2, "wO": 0, "wq": 0, "xC": 1, "xH": 2, "xO": 0, "xq": 0, "m2": 0},
    "rule-based": {"wC": 1, "wH": 2, "wO": 0, "wq": 0, "xC": 1, "xH": 0, "xO": 0, "xq": 0, "m2": 0},
    "mcs-ok": {"wC": 2, "wH": 2, "wO": 0, "wq": 0, "xC": 1, "xH": 2, "xO": 0, "xq": 0, "m2": 4, "wwC": 1, "wwH": 0, "wwO": 0, "wwq": 0},
    "mcs-fail": {"wC": 2, "wH": 2, "wO": 0, "wq": 0, "xC": 1, "xH": 2, "xO": 0, "xq": 0, "m2": 0},
    "carbon-deficit": {"wC": 1, "wH": 0, "wO": 0, "wq": 0, "xC": 2, "xH": 0, "xO": 0, "xq": 0, "m2": 4, "wwC": 1, "wwH": 0, "wwO": 0, "wwq": 0},
}


for _v in ROW2.values():
    _v.setdefault("f2", 0)
    _v.setdefault("c2", 4)
ROW2["rule-based/PCC"] = dict(ROW2["rule-based"], f2=5)  # row 2 additionally rewritten by a reagent template


def partitions2(tier, pid):
    """Two rows in one batch; both orders.  Row 1 symbolic, row 2 fixed per outcome class."""
    out = []
    reps = list(ROW2) if tier == "thorough" else ["input-balanced", "rule-based/PCC", "mcs-ok", "mcs-fail"]
    row1 = []
    if tier == "thorough":
        for m in (0, 3, 4):
            for jq in (-1, 0, 1):
                row1.append({"m1": m, "jq": jq, "qq": 0})
        row1.append({"m1": 4, "jq": 0, "qq": 1})
        row1.append({"m1": 4, "jq": 0, "qq": -1})
    else:
        row1 = [{"m1": 0, "jq": 0, "qq": 0}, {"m1": 4, "jq": 0, "qq": 0}]
    for rep in reps:
        for order in (0, 1):
            shape = ["j>>q", "w>>x"]
            for r1 in row1:
                fix = dict(ROW2[rep])
                fix.update(r1)
                name = "pipe2[%s|row2=%s,%s]" % ("j>>q,w>>x" if order == 0 else "w>>x,j>>q", rep, ",".join("%s=%d" % kv for kv in sorted(r1.items())))
                out.append((name, {"shape": shape, "order": order, "E": ["C", "H"], "K": 2, "fix": fix}, "prop"))
    return out


def input_rows(PART):
    shape = PART["shape"]
    rows = [{"reaction": r} for r in shape]
    if PART.get("order") == 1:
        rows = rows[::-1]
    return rows
