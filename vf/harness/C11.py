"""C11 -- MCS-stage timeouts and failures are contained to the affected reaction (pipeline harness, fault model)."""
from __future__ import annotations

import itertools

from vf.engine_xh import Part
from vf.harness import pipecore as pc
from vf.world import pipe
from vf.world.pipe import W, Tok

import synrbl.mcs_search as _ms
import synrbl.SynMCSImputer.SubStructure.mcs_process as _mp
import synrbl.SynMCSImputer.MissingGraph.find_graph_dict as _fg
import synrbl.SynMCSImputer.mcs_based_method as _mm

PART = {}
H = "vf.harness.C11:"

ENCODES = pc.ENCODES_PIPE + [
    "synrbl.SynMCSImputer.SubStructure.mcs_process:ensemble_mcs",
    "synrbl.SynMCSImputer.SubStructure.mcs_process:single_mcs_safe",
    "synrbl.SynMCSImputer.SubStructure.mcs_process:single_mcs",
    "synrbl.SynMCSImputer.MissingGraph.find_graph_dict:find_graph_dict",
    "synrbl.SynMCSImputer.MissingGraph.find_graph_dict:find_single_graph_parallel",
    "synrbl.SynMCSImputer.MissingGraph.find_graph_dict:smiles_to_mol_parallel",
    "synrbl.SynMCSImputer.MissingGraph.uncertainty_graph:GraphMissingUncertainty.fit",
]
EXPLANATION = (
    "The real MCS stage (ensemble_mcs, single_mcs_safe, single_mcs, get_largest_condition, find_graph_dict with its "
    "per-pair wrapper, GraphMissingUncertainty, MCSSearch.find, impute_reaction, MCSBasedMethod.run) runs inside the "
    "real pipeline under CrossHair. multiprocessing.pool.ThreadPool is a shim whose get(timeout) either runs the job "
    "or raises TimeoutError and parks the job as a zombie that is completed later at a chosen call boundary (it then "
    "mutates the result dict the caller already holds, as the abandoned thread does in the real code). The job bodies "
    "(MCSMissingGraphAnalyzer.fit, find_missing_parts_pairs) succeed, report uncertainty or raise. Fault patterns are "
    "enumerated as partitions; compositions of the faulted reaction and of its merge result stay symbolic. Oracle: no "
    "row lost; every row is solved and truly balanced or returned unchanged with a non-empty issue; the fault-free "
    "neighbour row equals its row in the fault-free run."
)
BOUNDS = [
    "2 rows in one batch (faulted row j>>q with symbolic compositions, C count 0..1, H count 0..2, charges 0; neighbour row w>>x a fixed MCS-solvable reaction), both orders",
    "fault pattern of the faulted row: each of its 3 search jobs in {ok, timeout, raise, uncertain, partial (a None hole in the result list)}, its fragment-analysis job in {ok, timeout, raise}, merge in {ok, raise}; zombie completion at one of 5 boundaries (before/after get_largest_condition, before/after find_graph_dict, before MCSBasedMethod.run); quick = one faulted job (or all three search jobs alike) and 1-2 boundaries; thorough = up to two faulted jobs (or all three search jobs alike) and all 5 boundaries",
]
STUBS = pc.STUBS_PIPE + [
    "multiprocessing.pool.ThreadPool -> shim: get(timeout) returns the job's result or raises TimeoutError; a timed-out job completes at a later call boundary; terminate() does not stop it (as in CPython)",
    "MCSMissingGraphAnalyzer.fit / FindMissingGraphs.find_missing_parts_pairs -> outcome stubs (ok / uncertain / raise); rdmolfiles.MolToSmarts/MolToSmiles, Chem.MolFromSmiles/MolFromSmarts/MolToSmiles on the opaque molecule objects -> identity",
    "build_compounds -> stub that keeps the real length checks; merge -> token or exception",
    "time.time in mcs_process -> constant",
]
OUTSIDE = pc.OUTSIDE_PIPE + ["real pre-emption inside a call, joblib worker processes (a zombie in a worker writes to a discarded copy; the in-process case is the harder one), RDKit's own 1 s FindMCS budget"]
ASSUMPTIONS = STUBS

JOB_OK, JOB_TIMEOUT, JOB_RAISE, JOB_UNCERTAIN, JOB_PARTIAL = "ok", "timeout", "raise", "uncertain", "partial"
BOUNDARIES = ("pre-select", "post-select", "pre-graph", "post-graph", "pre-impute")

_ORIG = {}
_STATE = {"zombies": [], "plan": {}, "boundary": None, "faults_on": True}


class _TimeoutError(Exception):
    pass


class _Async:
    def __init__(self, pool, f, args, kwargs, mode):
        self.pool, self.f, self.args, self.kwargs, self.mode = pool, f, args, kwargs, mode

    def get(self, timeout=None):
        if self.pool.pending:
            # the pool's single thread is still busy with an abandoned job: this job cannot start in time
            self.pool.pending.append(self)
            _STATE["zombies"].append(self)
            raise _TimeoutError()
        if self.mode == JOB_TIMEOUT:
            self.pool.pending.append(self)
            _STATE["zombies"].append(self)
            raise _TimeoutError()
        return self.f(*self.args, **self.kwargs)

    def finish(self):
        try:
            self.f(*self.args, **self.kwargs)
        except Exception:
            pass  # an exception in an abandoned thread goes nowhere
        if self in self.pool.pending:
            self.pool.pending.remove(self)


class _ThreadPool:
    """One worker thread: a job that timed out keeps the thread busy (terminate() does not stop it), so a later
    job submitted to the SAME pool object waits behind it.  The code under analysis creates a fresh pool per job."""

    def __init__(self, n=1):
        self.pending = []

    def apply_async(self, f, args=(), kwds=None):
        kwds = kwds or {}
        mode = JOB_OK
        if _STATE["faults_on"]:
            mode = _job_mode(f, args, kwds)
        return _Async(self, f, args, kwds, JOB_TIMEOUT if mode == JOB_TIMEOUT else JOB_OK)

    def terminate(self):
        return None


class _Pool:
    ThreadPool = _ThreadPool


class _MP:
    pool = _Pool
    TimeoutError = _TimeoutError


class _Time:
    @staticmethod
    def time():
        return 0.0


class _Mol:
    """opaque molecule object of the stub analyser: a tagged string"""

    def __init__(self, s):
        self.s = s


def _job_key(data_dict_or_content, kind, cond=None):
    return (data_dict_or_content, kind, cond)


def _job_mode(f, args, kwds):
    name = getattr(f, "__name__", "")
    if name == "single_mcs":
        content = pipe._content(args[0])
        cond = _cond_index(kwds)
        return _STATE["plan"].get((content, "search", cond), JOB_OK)
    # fragment analysis job: args = (reactant_mol_list, mcs_mol_list)
    mols = args[0]
    content = mols[0].s if mols else None
    return _STATE["plan"].get((content, "graph", None), JOB_OK)


def _cond_index(kwds):
    if kwds.get("method") == "MCES":
        return 2
    return 0 if kwds.get("RingMatchesRingOnly") else 1


class _Analyzer:
    def fit(self, data_dict, **kw):
        content = pipe._content(data_dict)
        cond = _cond_index(kw)
        mode = _STATE["plan"].get((content, "search", cond), JOB_OK) if _STATE["faults_on"] else JOB_OK
        if W.mcs.get(content, pipe.MCS_FAIL) == pipe.MCS_FAIL:
            raise ValueError("no MCS (stub)")
        if mode == JOB_RAISE:
            raise RuntimeError("search job failed (stub)")
        mcs_list = [_Mol("s%d" % cond)]
        sorted_reactants = [_Mol(content)]
        reactant_mol_list = [_Mol(content)]
        if mode == JOB_UNCERTAIN:
            reactant_mol_list = []
        if mode == JOB_PARTIAL:
            mcs_list = [None]  # an internal failure of the iterative search leaves a hole in the result list
        return mcs_list, sorted_reactants, reactant_mol_list, None


class _rdmolfiles:
    @staticmethod
    def MolToSmarts(m):
        if m is None:
            raise TypeError("MolToSmarts(NoneType): did not match C++ signature (stub)")
        return m.s

    @staticmethod
    def MolToSmiles(m):
        if m is None:
            raise TypeError("MolToSmiles(NoneType): did not match C++ signature (stub)")
        return m.s

    @staticmethod
    def MolFromSmiles(s, *a, **k):
        return pipe.FakeChem.MolFromSmiles(s)


class _FgChem:
    @staticmethod
    def MolFromSmiles(s, sanitize=True):
        return _Mol(s)

    @staticmethod
    def MolFromSmarts(s):
        return _Mol(s)

    @staticmethod
    def MolToSmiles(m):
        return m.s


class _FMG:
    @staticmethod
    def find_missing_parts_pairs(mol_list, mcs_list=None, substructure_optimize=True):
        content = mol_list[0].s if mol_list else None
        mode = _STATE["plan"].get((content, "graph", None), JOB_OK) if _STATE["faults_on"] else JOB_OK
        if mode == JOB_RAISE:
            raise RuntimeError("fragment analysis failed (stub)")
        return ([_Mol("frag")], [[{"C": 0}]], [[{"C": 1}]])


def _build_compounds(data_dict):
    src = data_dict["sorted_reactants"]
    smiles = data_dict["smiles"]
    b = data_dict["boundary_atoms_products"]
    nb = data_dict["nearest_neighbor_products"]
    mcs_results = data_dict["mcs_results"]
    n = len(smiles)
    if n != len(src):
        raise ValueError("Smiles and sorted reactants are not of the same length. ({} != {})".format(len(smiles), len(src)))
    if n != len(b) or n != len(nb):
        raise ValueError("Boundaries and nearest neighbors must be of same length as compounds.")
    if n != len(mcs_results):
        raise ValueError("MCS results must be of same length as compounds.")
    c = pipe._CSet()
    for s, ss in zip(smiles, src):
        if s is not None:
            c.append(ss)
    return c


def _merge(cset):
    content = cset[0]
    mode = W.mcs.get(content, pipe.MCS_FAIL)
    if mode == pipe.MCS_MERGE_RAISE or (_STATE["faults_on"] and _STATE["plan"].get((content, "merge", None)) == JOB_RAISE):
        raise pipe.MergeFailure("merge failed (stub)")
    return pipe._MergeResult(W.merge_tok.get(content, "M"))


def _boundary(name):
    if _STATE["boundary"] == name:
        zs = _STATE["zombies"]
        _STATE["zombies"] = []
        for z in zs:
            z.finish()


def _install():
    pipe.install()
    if not _ORIG:
        for mod, names in ((_mp, ("multiprocessing", "MCSMissingGraphAnalyzer", "rdmolfiles", "time", "BlockLogs")),
                           (_fg, ("multiprocessing", "FindMissingGraphs", "Chem", "pd")),
                           (_ms, ("ensemble_mcs", "find_graph_dict", "ExtractMCS"))):
            for n in names:
                if not hasattr(mod, n):
                    raise pipe.PatchPointMissing("%s.%s" % (mod.__name__, n))
        _ORIG["done"] = True
        _mp.multiprocessing = _MP
        _mp.MCSMissingGraphAnalyzer = _Analyzer
        _mp.rdmolfiles = _rdmolfiles
        _mp.time = _Time
        _mp.BlockLogs = pipe._NoBlock
        _mp.Parallel = pipe.SeqParallel
        _mp.delayed = pipe.seq_delayed
        _fg.multiprocessing = _MP
        _fg.FindMissingGraphs = _FMG
        _fg.Chem = _FgChem
        _fg.pd = pipe.PD
        _fg.Parallel = pipe.SeqParallel
        _fg.delayed = pipe.seq_delayed
        real_ens = _mp.ensemble_mcs
        real_fgd = _fg.find_graph_dict
        real_glc = _ms.ExtractMCS.get_largest_condition

        def ens(*a, **k):
            return real_ens(*a, **k)

        def fgd(*a, **k):
            _boundary("pre-graph")
            r = real_fgd(*a, **k)
            _boundary("post-graph")
            return r

        class _EX:
            @staticmethod
            def get_largest_condition(*conds):
                _boundary("pre-select")
                r = real_glc(*conds)
                _boundary("post-select")
                return r

        _ms.ensemble_mcs = ens
        _ms.find_graph_dict = fgd
        _ms.ExtractMCS = _EX
        _mm.build_compounds = _build_compounds
        _mm.merge = _merge
        real_run = _mm.MCSBasedMethod.run

        def run(self, reactions, stats=None):
            _boundary("pre-impute")
            return real_run(self, reactions, stats=stats)

        _mm.MCSBasedMethod.run = run


def _row(out, content):
    for r in out:
        if r["input_reaction"] == content:
            return r
    return None


FIELDS = ("reaction", "solved", "solved_by", "confidence", "rules", "issue")


def _same(ra, rb):
    for k in FIELDS:
        va, vb = ra.get(k), rb.get(k)
        if (va is None or pc.is_nan(va)) and (vb is None or pc.is_nan(vb)):
            continue
        if va != vb:
            return False
    return True


def h_faults(jC: int, jH: int, qC: int, qH: int, jjC: int, jjH: int) -> bool:
    """
    post: _
    """
    _install()
    a = {n: 0 for n in pc.ARGNAMES}
    a.update({"c1": 4, "c2": 4, "thr": 0})
    a.update({"jC": jC, "jH": jH, "qC": qC, "qH": qH, "jjC": jjC, "jjH": jjH})
    fix = dict(pc.ROW2["mcs-ok"])
    fix.update({"m1": 4, "jq": 0, "qq": 0, "jjq": 0, "f1": 0})
    P = {"shape": ["j>>q", "w>>x"], "order": PART.get("order", 0), "E": ["C", "H"], "K": 2, "fix": fix}
    if jC > 1 or qC > 1 or jjC > 1:
        return True  # carbon counts of the faulted row 0..1 (bound of this harness)
    plan_ = {}
    for ci, m in enumerate(PART["search"]):
        plan_[("j>>q", "search", ci)] = m
    plan_[("j>>q", "graph", None)] = PART["graph"]
    plan_[("j>>q", "merge", None)] = PART["merge"]
    tw = PART.get("twin")
    outs = []
    for faults_on in (True, False):
        _STATE["zombies"] = []
        _STATE["plan"] = plan_
        _STATE["boundary"] = PART.get("boundary")
        _STATE["faults_on"] = faults_on
        r = pc.explore(P, dict(a), thr=None)
        # abandoned threads that never reached a boundary finish after the stage
        for z in _STATE["zombies"]:
            z.finish()
        _STATE["zombies"] = []
        if r is None:
            return True
        outs.append(r[0])
    faulted, clean = outs
    if tw == "mcs-solved":
        rr = _row(clean, "j>>q")
        return not (rr is not None and rr["solved"] and rr.get("solved_by") == "mcs-based")
    if tw == "fault-visible":
        rf, rc = _row(faulted, "j>>q"), _row(clean, "j>>q")
        return rf is None or rc is None or _same(rf, rc)
    if len(faulted) != 2 or len(clean) != 2:
        return False
    for row in faulted:
        if row["solved"]:
            parses, bal = pipe.truly_balanced(row["reaction"])
            if not (parses and bal):
                return False
            if row.get("solved_by") not in ("input-balanced", "rule-based", "mcs-based"):
                return False
        else:
            if row["reaction"] != row["input_reaction"]:
                return False
            iss = row.get("issue")
            if not isinstance(iss, str) or iss == "":
                return False
    nf, nc = _row(faulted, "w>>x"), _row(clean, "w>>x")
    if nf is None or nc is None or not _same(nf, nc):
        return False
    return True


def _patterns(tier):
    modes = (JOB_OK, JOB_TIMEOUT, JOB_RAISE, JOB_UNCERTAIN, JOB_PARTIAL)
    out = []
    for s in itertools.product(modes, repeat=3):
        for g in (JOB_OK, JOB_TIMEOUT, JOB_RAISE):
            for mg in (JOB_OK, JOB_RAISE):
                nfault = sum(1 for x in s if x != JOB_OK) + (g != JOB_OK) + (mg != JOB_OK)
                has_timeout = JOB_TIMEOUT in s or g == JOB_TIMEOUT
                all_same = len(set(s)) == 1 and g == JOB_OK and mg == JOB_OK
                if tier == "thorough":
                    if nfault > 2 and not all_same:
                        continue
                else:
                    if nfault > 1 and not all_same:
                        continue
                bds = (None,)
                if has_timeout:
                    bds = BOUNDARIES if tier == "thorough" else (("post-select", "pre-impute") if g != JOB_TIMEOUT else ("post-graph",))
                for bd in bds:
                    for order in ((0, 1) if (tier == "thorough" and nfault <= 1) or (tier != "thorough" and nfault == 1 and bd in (None, "post-select", "post-graph")) else (0,)):
                        out.append({"search": list(s), "graph": g, "merge": mg, "boundary": bd, "order": order})
    return out


def plan(tier):
    P = []
    for p in _patterns(tier):
        name = "faults[search=%s|graph=%s|merge=%s|zombie@%s|order=%d]" % ("/".join(p["search"]), p["graph"], p["merge"], p["boundary"], p["order"])
        P.append(Part(H + "h_faults", p, name, group="faults", timeout=1800, path_timeout=200))
    P.append(Part(H + "h_faults", {"search": [JOB_OK] * 3, "graph": JOB_OK, "merge": JOB_OK, "boundary": None, "order": 0, "twin": "mcs-solved"}, "faults.twin[mcs-solved reachable]", kind="twin", group="faults", timeout=600))
    P.append(Part(H + "h_faults", {"search": [JOB_TIMEOUT] * 3, "graph": JOB_OK, "merge": JOB_OK, "boundary": None, "order": 0, "twin": "fault-visible"}, "faults.twin[fault visible]", kind="twin", group="faults", timeout=600))
    return P
