"""C02 -- rebalancing only adds whole molecules; the given molecules are never altered (pipeline harness)."""
from __future__ import annotations

from vf import kf
from vf.engine_xh import Part
from vf.harness import pipecore as pc
from vf.world import pipe
from vf.world.pipe import W

PART = {}
H = "vf.harness.C02:"
KF_PEROXIDE = "C02-given-peroxide-rewritten"

ENCODES = pc.ENCODES_PIPE
STUBS = pc.STUBS_PIPE
ASSUMPTIONS = STUBS
BOUNDS = pc.BOUNDS_PIPE
OUTSIDE = pc.OUTSIDE_PIPE
EXPLANATION = (
    "The real Balancer pipeline (preprocess, validators, rule-based stage with the real matcher/imputer/constraint, "
    "MCSSearch.find, MCSBasedMethod.run/impute_reaction, reagent post-processing with the real curation code and "
    "shipped templates, second rule-based run, final validation, confidence filter) is executed symbolically with "
    "CrossHair+z3 on an abstract-chemistry world: molecules are tokens whose element counts and charges are solver "
    "variables and every environment outcome (MCS found/failed, merge result composition, functional group, "
    "confidence, threshold) is a solver variable. Oracle: per returned row and per side the multiset of molecules of input_reaction is contained in that of reaction, every additional token is a complete molecule of the universe (rule compounds, template compounds, water/H2/atomic placeholders the code inserts, merge results), and input_reaction is the given reaction. Each partition (reaction shape x MCS outcome class x "
    "charges) is explored to path exhaustion."
)
METHODS = ("input-balanced", "rule-based", "mcs-based")

def h_main(jC: int, jH: int, jO: int, jq: int, qC: int, qH: int, qO: int, qq: int,
      wC: int, wH: int, wO: int, wq: int, xC: int, xH: int, xO: int, xq: int,
      jjC: int, jjH: int, jjO: int, jjq: int, wwC: int, wwH: int, wwO: int, wwq: int,
      m1: int, m2: int, f1: int, f2: int, c1: int, c2: int, thr: int) -> bool:
    """
    post: _
    """
    a = dict(locals())
    r = pc.explore(PART, a, thr=thr if PART.get('sym_thr') else None)
    if r is None:
        return True
    out, stats = r
    tw = PART.get("twin")
    allowed = set(pipe.REAL) | set(pc.MERGE)
    givens = [r["reaction"] for r in pc.input_rows(PART)]
    if len(out) != len(givens):
        return True  # row loss is C05's subject
    for row, given in zip(out, givens):
        if row["input_reaction"] != given:
            return False
        rx = row["reaction"]
        if tw == "changed" and rx != given:
            return False
        po = rx.split(">>")
        pi = given.split(">>")
        if len(po) != 2:
            return False
        for s in (0, 1):
            have = po[s].split(".")
            for pos, t in enumerate(pi[s].split(".")):
                if t in have:
                    have.remove(t)
                elif s == 1 and t == "OO" and pos >= 1 and kf.active(KF_PEROXIDE):
                    # known finding: a given '.OO' on the product side is rewritten into 2 water + [H].[H]
                    # (specified deviation: only that molecule may be missing)
                    continue
                else:
                    return False
            for t in have:
                if t not in allowed:
                    return False
    return True


def plan(tier):
    P = []
    for name, params, kind in pc.partitions(tier, "C02"):
        P.append(Part(H + "h_main", params, name, kind=kind, group="pipeline", timeout=1500, path_timeout=120))
    for tw in ["changed"]:
        P.append(Part(H + "h_main", {"shape": ["j>>q"], "E": ["C", "H"], "K": 2, "twin": tw, "fix": {"m1": 4 if tw == "mcs" else 0, "jq": 0, "qq": 0}}, "pipe.twin[%s]" % tw, kind="twin", group="pipeline", timeout=600))
    return P


def extra(tier):
    return {"obligations": [], "findings": pc.witness_findings("C02")}
