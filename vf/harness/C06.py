"""C06 -- a reaction's result does not depend on its batch context (pipeline harness, metamorphic inside one path)."""
from __future__ import annotations

from vf import kf
from vf.engine_xh import Part
from vf.harness import pipecore as pc
from vf.world import pipe
from vf.world.pipe import W

PART = {}
H = "vf.harness.C06:"

ENCODES = pc.ENCODES_PIPE + ["synrbl.balancing:Balancer.rebalance", "synrbl.balancing:Balancer._Balancer__rebalance_batch", "synrbl.balancing:merge_stats"]
STUBS = pc.STUBS_PIPE + ["every environment stub is keyed by reaction content, never by row id or position, so the same reaction meets the same environment in every grouping"]
ASSUMPTIONS = STUBS
BOUNDS = pc.BOUNDS_PIPE + ["groupings compared in one path: [r1,r2] (one batch), [r2,r1], [r1] alone, [r2] alone, [r1,r2] with batch_size=1; r1 = j>>q symbolic, r2 = w>>x one fixed representative per outcome class; merge_stats kernel: 2 dicts over 7 keys, unbounded integer values, symbolic key presence"]
OUTSIDE = pc.OUTSIDE_PIPE + ["joblib process pools / worker counts 1..16 (sequential shim); repeated runs differ only through the confidence model, a pure function in the stub"]
EXPLANATION = (
    "Metamorphic check inside one symbolic path: the real Balancer.rebalance is run on [r1,r2], [r2,r1], [r1], [r2] "
    "and on [r1,r2] with batch_size=1 in the same abstract-chemistry world (compositions, MCS outcome, merge result, "
    "functional group, confidence of r1 are solver variables); the row of each reaction (reaction, solved, method, "
    "confidence, rules, issue) must be identical in all groupings and the statistics of a grouping must equal the "
    "key-wise sum of the statistics of its parts. merge_stats is checked as a kernel with unbounded integers."
)
FIELDS = ("reaction", "solved", "solved_by", "confidence", "rules", "issue")


_ABSENT = "<absent>"


def _field(row, k):
    """value of an output field; an absent key and None are the same thing to a caller using .get(), NaN is not"""
    v = row.get(k)
    if v is None:
        return _ABSENT
    if pc.is_nan(v):
        return "<nan>"
    return v


def _same(ra, rb):
    for k in FIELDS:
        va, vb = _field(ra, k), _field(rb, k)
        if k == "issue" and va in (_ABSENT, "") and vb in (_ABSENT, ""):
            continue
        if va != vb:
            return False
    return True


def _sum_stats(sa, sb):
    out = dict(sa)
    for k, v in sb.items():
        out[k] = out.get(k, 0) + v
    return out


def _eq_stats(sa, sb):
    for k in set(sa) | set(sb):
        if sa.get(k, 0) != sb.get(k, 0):
            return False
    return True


def h_main(jC: int, jH: int, jO: int, jq: int, qC: int, qH: int, qO: int, qq: int,
      wC: int, wH: int, wO: int, wq: int, xC: int, xH: int, xO: int, xq: int,
      jjC: int, jjH: int, jjO: int, jjq: int, wwC: int, wwH: int, wwO: int, wwq: int,
      m1: int, m2: int, f1: int, f2: int, c1: int, c2: int, thr: int) -> bool:
    """
    post: _
    """
    a = dict(locals())
    r1 = {"reaction": PART["shape"][0]}
    r2 = {"reaction": PART["shape"][1]}
    t = thr if PART.get("sym_thr") else None
    runs = {}
    for name, rows, bs in (("12", [r1, r2], None), ("21", [r2, r1], None), ("1", [r1], None), ("2", [r2], None), ("1|2", [r1, r2], 1)):
        r = pc.explore(PART, a, thr=t, rows=[dict(x) for x in rows], via_rebalance=True, batch_size=bs)
        if r is None:
            return True
        runs[name] = r
    tw = PART.get("twin")
    def by_input(out):
        return {row["input_reaction"]: row for row in out}
    ref = {}
    ref.update(by_input(runs["1"][0]))
    ref.update(by_input(runs["2"][0]))
    if len(ref) != 2:
        return True  # a row was lost when run alone: C05's subject
    if tw == "differs":
        return _same(ref[r1["reaction"]], ref[r2["reaction"]])
    for name in ("12", "21", "1|2"):
        out = runs[name][0]
        if len(out) != 2:
            return False
        want = [r1, r2] if name != "21" else [r2, r1]
        for row, given in zip(out, want):
            if row["input_reaction"] != given["reaction"]:
                return False
            if not _same(row, ref[given["reaction"]]):
                return False
    parts = _sum_stats(runs["1"][1], runs["2"][1])
    for name in ("12", "21", "1|2"):
        if not _eq_stats(runs[name][1], parts):
            return False
    return True


def h_merge_stats(p0: bool, p1: bool, p2: bool, p3: bool, q0: bool, q1: bool, q2: bool, q3: bool,
                  a0: int, a1: int, a2: int, a3: int, b0: int, b1: int, b2: int, b3: int) -> bool:
    """
    post: _
    """
    from synrbl.balancing import merge_stats

    keys = ["reaction_cnt", "balanced_cnt", "rb_applied", "mcs_solved"]
    s = {}
    n = {}
    for k, p, v in zip(keys, (p0, p1, p2, p3), (a0, a1, a2, a3)):
        if p:
            s[k] = v
    for k, p, v in zip(keys, (q0, q1, q2, q3), (b0, b1, b2, b3)):
        if p:
            n[k] = v
    before_n = dict(n)
    want = _sum_stats(s, n)
    merge_stats(s, n)
    if PART.get("twin"):
        return s == {}
    if n != before_n:
        return False
    if set(s) != set(want):
        return False
    for k in want:
        if s[k] != want[k]:
            return False
    # stats=None is accepted and is a no-op
    merge_stats(None, n)
    return n == before_n


def plan(tier):
    P = []
    P.append(Part(H + "h_merge_stats", {}, "merge_stats[4 keys]", group="merge_stats", timeout=900))
    P.append(Part(H + "h_merge_stats", {"twin": 1}, "merge_stats.twin", kind="twin", group="merge_stats", timeout=300))
    seen = set()
    for name, params, kind in pc.partitions2(tier, "C06"):
        if params.get("order") == 1:
            continue  # both orders are compared inside one path
        nm = name.replace("pipe2[j>>q,w>>x|", "ctx[")
        if params["fix"].get("m1") == 4:
            # five pipeline runs per path: split the merge-result space to keep partitions short
            for jjc in (0, 1, 2):
                p2 = dict(params, fix=dict(params["fix"], jjC=jjc))
                P.append(Part(H + "h_main", p2, nm.replace("]", ",jjC=%d]" % jjc), kind=kind, group="context", timeout=2400, path_timeout=300))
        else:
            P.append(Part(H + "h_main", params, nm, kind=kind, group="context", timeout=2400, path_timeout=300))
    fix = dict(pc.ROW2["mcs-ok"])
    fix.update({"m1": 0, "jq": 0, "qq": 0})
    P.append(Part(H + "h_main", {"shape": ["j>>q", "w>>x"], "E": ["C", "H"], "K": 2, "twin": "differs", "fix": fix}, "ctx.twin[differs]", kind="twin", group="context", timeout=600))
    return P


def extra(tier):
    return {"obligations": [], "findings": pc.witness_findings("C06")}
