#!/bin/sh
# usage: tools/confirm_mutant.sh <raw-dir with patch.diff demo.py> <name>   -> writes <raw-dir>/confirm.json
# Confirms a seeded change in a scratch worktree: patch applies, the 268 baseline tests still pass,
# the demonstration fails with the patch and passes without it.
raw=$(readlink -f "$1"); name=$2
wt=/tmp/conf-$name
# the seeded changes were written against this commit of /repo (before the later "fix:" repairs)
BASE=${MUT_BASE:-c38f85e}
git -C /repo worktree add -q --detach $wt $BASE || exit 2
cd $wt
mkdir -p out/m; cp $raw/demo.py out/m/demo.py
/venv/bin/python out/m/demo.py >/tmp/conf-$name.clean.log 2>&1; rc_clean=$?
git apply $raw/patch.diff; ap=$?
/venv/bin/python out/m/demo.py >/tmp/conf-$name.mut.log 2>&1; rc_mut=$?
/venv/bin/python -m pytest -q -p no:cacheprovider --timeout=900 -q --junitxml=/tmp/conf-$name.xml >/tmp/conf-$name.pytest.log 2>&1
/venv/bin/python - "$name" "$raw" $ap $rc_clean $rc_mut $BASE <<'PY'
import sys, json, xml.etree.ElementTree as ET
name, raw, ap, rc_clean, rc_mut = sys.argv[1], sys.argv[2], int(sys.argv[3]), int(sys.argv[4]), int(sys.argv[5])
base = set(json.load(open('/root/.vp/BASELINE.json'))['stable_pass'])
passed = set()
try:
    for tc in ET.parse('/tmp/conf-%s.xml' % name).getroot().iter('testcase'):
        if not list(tc):
            passed.add('%s::%s' % (tc.get('classname'), tc.get('name')))
except Exception as e:
    passed = set(); print('junit parse error', e)
missing = sorted(base - passed)
res = {"name": name, "base_commit": sys.argv[6], "patch_applies": ap == 0, "demo_exit_clean": rc_clean, "demo_exit_mutated": rc_mut,
       "baseline_tests": len(base), "baseline_tests_passing_with_patch": len(base & passed), "baseline_tests_broken": missing[:10],
       "confirmed": ap == 0 and rc_clean == 0 and rc_mut != 0 and not missing}
json.dump(res, open(raw + '/confirm.json', 'w'), indent=1)
print(json.dumps(res))
PY
cd /; git -C /repo worktree remove --force $wt; rm -f /tmp/conf-$name.xml /tmp/conf-$name.*.log
