"""C12 -- result caching is transparent across runs, configurations and crashes."""
from __future__ import annotations

import os as _real_os

from vf import kf
from vf.engine_xh import Part
from vf.world import pipe

import synrbl.SynUtils.batching as _bt
import synrbl.balancing as _bal

PART = {}
H = "vf.harness.C12:"
# C12-cache-key-omits-configuration and C12-truncated-entry-raises were repaired in /repo ("fix:" commits): no region
# is excluded any more; their witnesses are still replayed and would be reported as violations if they came back.

ENCODES = [
    "synrbl.balancing:Balancer.rebalance",
    "synrbl.balancing:Balancer._Balancer__rebalance_batch",
    "synrbl.balancing:Balancer._Balancer__try_cache",
    "synrbl.balancing:Balancer._Balancer__init_cache",
    "synrbl.balancing:merge_stats",
    "synrbl.SynUtils.batching:CacheManager.__init__",
    "synrbl.SynUtils.batching:CacheManager.get_hash_key",
    "synrbl.SynUtils.batching:CacheManager.is_cached",
    "synrbl.SynUtils.batching:CacheManager.load_cache",
    "synrbl.SynUtils.batching:CacheManager.write_cache",
    "synrbl.SynUtils.batching:DataLoader.__next__",
]
EXPLANATION = (
    "The real Balancer.rebalance / __rebalance_batch / __try_cache and the real CacheManager (json and hashlib real) "
    "run under CrossHair on an in-memory file system; the pipeline is a stub that is a pure function of (row, "
    "threshold). A history of up to 3 runs is symbolic: per run the input list and batch size (index into a table), "
    "the threshold, and optionally a crash point k (the k-th write() to a cache file kills the run, leaving exactly "
    "the prefix written so far; open(..,'w') truncates first). Every run that is not itself killed must return what "
    "the same call returns with cache=False (rows and stats) and must not raise (an exception other than the simulated "
    "kill fails the obligation)."
)
BOUNDS = [
    "histories of 2 runs (quick) / 3 runs (thorough) over 3 row tokens; per run one of 7 (rows, batch_size) layouts; reported columns default or widened by 'mcs' per run; threshold in {0,1,2} (concrete per partition: quick 3 threshold pairs, thorough all 9) against symbolic per-token confidence in {0,1,2}; statistics requested or not per run; at most one killed run, crash point k in 0..80 units, one unit per write() call plus one per byte offset inside a multi-byte UTF-8 character of the chunk (covers absent/empty/every chunk prefix/half-written character/complete); one of the three row tokens contains a non-ASCII character",
]
STUBS = [
    "Balancer.__run_pipeline -> pure function of (row token, threshold): solved = confidence(token) >= threshold, stats = {reaction_cnt, confident_cnt}",
    "os / open in synrbl.SynUtils.batching -> in-memory file system with nested directories: POSIX truncate-on-open, files hold bytes (text encoded with the encoding given to open, default assumed UTF-8; read decodes strictly), append-on-write, recursive walk, crash between write() calls and inside multi-byte characters",
    "traceback.print_exc in synrbl.balancing -> no-op",
]
OUTSIDE = ["more than one level of nesting of cache directories", "column-name configuration changes (same mechanism as the threshold: the key hashes only the rows)", "concurrent runs sharing the directory", "a write() torn between two ASCII bytes of one chunk (crash granularity = one write call of json.dump, plus every offset inside a multi-byte character)", "locales whose default text encoding is not UTF-8"]
ASSUMPTIONS = STUBS


class Killed(BaseException):
    pass


class MemFS:
    def __init__(self):
        self.files = {}
        self.dirs = set()
        self.writes = 0
        self.kill_at = -1

    def reset_counter(self, kill_at):
        self.writes = 0
        self.kill_at = kill_at


FS = MemFS()


def _cuts(b):
    """byte offsets inside a multi-byte UTF-8 character of b (where a torn write can leave half a character)"""
    return [i for i in range(1, len(b)) if 0x80 <= b[i] <= 0xBF]


class _File:
    def __init__(self, path, mode, encoding=None):
        self.path = path
        self.mode = mode
        # text files without an explicit encoding use the locale's, assumed UTF-8
        self.encoding = encoding or "utf-8"
        if "w" in mode:
            FS.files[path] = b""
        elif path not in FS.files:
            raise FileNotFoundError(path)

    def __enter__(self):
        return self

    def __exit__(self, *a):
        return False

    def write(self, s):
        if FS.writes == FS.kill_at:
            raise Killed()
        FS.writes += 1
        b = s.encode(self.encoding)
        # the file holds bytes: a kill can also fall inside a multi-byte character of this chunk
        for p in _cuts(b):
            if FS.writes == FS.kill_at:
                FS.files[self.path] = FS.files[self.path] + b[:p]
                raise Killed()
            FS.writes += 1
        FS.files[self.path] = FS.files[self.path] + b
        return len(s)

    def read(self, *a):
        return FS.files[self.path].decode(self.encoding)


def _open(path, mode="r", *a, **k):
    return _File(path, mode, k.get("encoding"))


class _Path:
    exists = staticmethod(lambda p: p in FS.dirs or p in FS.files)
    splitext = staticmethod(_real_os.path.splitext)
    basename = staticmethod(_real_os.path.basename)
    join = staticmethod(_real_os.path.join)
    abspath = staticmethod(lambda p: p)


def _walk(top):
    subs = sorted(p for p in FS.dirs if _real_os.path.dirname(p) == top and p != top)
    files = sorted(_real_os.path.basename(f) for f in FS.files if _real_os.path.dirname(f) == top)
    yield top, [_real_os.path.basename(x) for x in subs], files
    for x in subs:
        for item in _walk(x):
            yield item


class _OS:
    path = _Path

    @staticmethod
    def makedirs(p, *a, **k):
        while p not in ("", "/"):
            FS.dirs.add(p)
            p = _real_os.path.dirname(p)

    @staticmethod
    def walk(d):
        return _walk(d)


class _NoTB:
    @staticmethod
    def print_exc(*a, **k):
        return None


# one row token carries a non-ASCII character, so that a cache entry can hold a multi-byte character whenever the
# code under analysis writes entries unescaped
RB = "r\u00e9b"
TOKENS = ("ra", RB, "rc")
LAYOUTS = [
    (["ra", RB], None),
    (["ra", RB], 1),
    ([RB, "ra"], 1),
    (["ra"], None),
    (["ra", RB, "rc"], 2),
    (["ra", "ra"], 1),
    ([RB, "ra"], None),
]
CONF = {}
CALLS = [0]


def _pipeline(rows, stats, thr):
    out = []
    conf_cnt = 0
    for r in rows:
        t = r["reaction"]
        ok = True if CONF[t] >= thr else False
        if ok:
            conf_cnt += 1
        out.append({"input_reaction": t, "reaction": t + ".done", "solved": ok, "solved_by": "mcs-based", "confidence": None, "rules": [], "issue": "" if ok else "below", "mcs": {"tag": t}})
    if stats is not None:
        stats["reaction_cnt"] = len(rows)
        stats["confident_cnt"] = conf_cnt
    return out


def _install():
    for n in ("os", "open"):
        pass
    if not hasattr(_bt, "os"):
        raise RuntimeError("patch point missing: batching.os")
    _bt.os = _OS
    _bt.open = _open
    _bal.traceback = _NoTB


_B = None


CACHE_DIRS = ("/cache", "/cache/strict")
BASE_COLUMNS = ["input_reaction", "reaction", "solved", "solved_by", "confidence", "rules", "issue"]


def _balancer(thr, cdir="/cache"):
    global _B
    pipe.install()
    if _B is None:
        _B = pipe.balancer()
    b = _B
    b.cache = True
    b.cache_dir = cdir
    b.confidence_threshold = thr
    def run(rows, stats=None):
        CALLS[0] += 1
        return _pipeline(rows, stats, b.confidence_threshold)

    b._Balancer__run_pipeline = run
    return b


def _batches(rows, bs):
    if bs is None:
        return [rows]
    return [rows[i:i + bs] for i in range(0, len(rows), bs)]


def _key(batch):
    return tuple(batch)


def h_history(l0: int, l1: int, l2: int, t0: int, t1: int, t2: int, ca: int, cb: int, cc: int, kill_run: int, k: int, s0: bool, s1: bool, s2: bool) -> bool:
    """
    pre: 0 <= l0 < 7 and 0 <= l1 < 7 and 0 <= l2 < 7
    pre: 0 <= t0 <= 2 and 0 <= t1 <= 2 and 0 <= t2 <= 2
    pre: 0 <= ca <= 2 and 0 <= cb <= 2 and 0 <= cc <= 2
    pre: -1 <= kill_run <= 1 and 0 <= k <= 80
    post: _
    """
    _install()
    nruns = PART.get("runs", 2)
    fixed = PART.get("fix") or {}
    ls = [fixed.get("l0", l0), fixed.get("l1", l1), fixed.get("l2", l2)][:nruns]
    ts = [fixed.get("t0", t0), fixed.get("t1", t1), fixed.get("t2", t2)][:nruns]
    want_stats = [True if fixed.get("s0", s0) else False, True if fixed.get("s1", s1) else False, True if fixed.get("s2", s2) else False][:nruns]
    if "kill_run" in fixed:
        kill_run = fixed["kill_run"]
    CONF.clear()
    CONF.update({"ra": fixed.get("ca", ca), RB: fixed.get("cb", cb), "rc": fixed.get("cc", cc)})
    FS.files = {}
    FS.dirs = set()
    tw = PART.get("twin")
    for i in range(nruns):
        rows_tok, bs = LAYOUTS[ls[i]]
        thr = ts[i]
        b = _balancer(thr, CACHE_DIRS[fixed.get("d%d" % i, 0)])
        # a caller may widen the reported columns (as the debugging helpers do with 'mcs')
        b.columns = list(BASE_COLUMNS) + (["mcs"] if fixed.get("e%d" % i, 0) else [])
        data = [{"reaction": t} for t in rows_tok]
        # what the same call returns without a cache
        want_rows = []
        want_stats_d = {}
        for batch in _batches(rows_tok, bs):
            st = {}
            want_rows.extend(_pipeline([{"reaction": t} for t in batch], st, thr))
            for kk, v in st.items():
                want_stats_d[kk] = want_stats_d.get(kk, 0) + v
        FS.reset_counter(k if kill_run == i else -1)
        CALLS[0] = 0
        stats = {} if want_stats[i] else None
        killed = False
        try:
            got = b.rebalance(data, output_dict=True, stats=stats, batch_size=bs)
        except Killed:
            killed = True
        FS.reset_counter(-1)
        if killed:
            if tw == "killed":
                return False
            continue
        if tw == "hit" and CALLS[0] < len(_batches(rows_tok, bs)):
            return False
        if tw == "after-kill" and i > 0 and kill_run == i - 1:
            return False
        want = [{kk: v for kk, v in r.items() if kk in b.columns} for r in want_rows]
        if got != want:
            return False
        if stats is not None and stats != want_stats_d:
            return False
    return True


def _entry_path(batch):
    import hashlib
    import json

    data = [{"reaction": t} for t in batch]
    h = hashlib.sha256()
    h.update(json.dumps(data, sort_keys=True).encode())
    return "/cache/%s.cache" % h.hexdigest()


def plan(tier):
    P = []
    nl = len(LAYOUTS)
    # histories without a crash: layouts of the later runs, thresholds and confidences symbolic
    # thresholds are concrete per partition: they are part of the cache key, and a symbolic number inside
    # json.dumps/sha256 makes every path expensive
    tpairs = [(a, b) for a in range(3) for b in range(3)] if tier == "thorough" else [(0, 0), (0, 1), (2, 1)]
    for l0 in range(nl):
        for (ta, tb) in tpairs:
            P.append(Part(H + "h_history", {"runs": 2, "fix": {"l0": l0, "kill_run": -1, "s0": True, "s1": True, "t0": ta, "t1": tb}},
                          "history[2 runs|l0=%d,thr=%d/%d]" % (l0, ta, tb), group="history", timeout=1800, path_timeout=120))
        for s0, s1 in ((False, True), (True, False)):
            if tier != "thorough" and l0 not in (0, 1):
                continue
            P.append(Part(H + "h_history", {"runs": 2, "fix": {"l0": l0, "kill_run": -1, "s0": s0, "s1": s1, "t0": 0, "t1": 0}},
                          "history[2 runs|l0=%d,stats=%s%s]" % (l0, "y" if s0 else "n", "y" if s1 else "n"), group="history", timeout=1800, path_timeout=120))
    # reported columns widened in the second run (narrow-then-wide) and narrowed (wide-then-narrow)
    for l0 in ((0, 1) if tier != "thorough" else range(nl)):
        for e0, e1 in ((0, 1), (1, 0)):
            P.append(Part(H + "h_history", {"runs": 2, "fix": {"l0": l0, "l1": l0, "kill_run": -1, "s0": True, "s1": True, "t0": 0, "t1": 0, "e0": e0, "e1": e1}},
                          "columns[2 runs|l0=%d,mcs column %s then %s]" % (l0, "on" if e0 else "off", "on" if e1 else "off"), group="columns", timeout=1800, path_timeout=120))
    # a second cache kept in a sub-directory of the first (run 1 writes cache/strict, run 2 uses cache, and reverse)
    for l0 in ((0, 1, 4) if tier != "thorough" else range(nl)):
        for d0, d1 in ((1, 0), (0, 1)):
            P.append(Part(H + "h_history", {"runs": 2, "fix": {"l0": l0, "kill_run": -1, "s0": True, "s1": True, "t0": 0, "t1": 0, "d0": d0, "d1": d1}},
                          "nested[2 runs|l0=%d,dirs=%s then %s]" % (l0, CACHE_DIRS[d0], CACHE_DIRS[d1]), group="nested", timeout=1800, path_timeout=120))
    # histories with a killed run: crash point symbolic (every write() of the entry), thresholds/confidences fixed
    calm = {"t0": 0, "t1": 0, "t2": 0, "ca": 1, "cb": 1, "cc": 1, "s0": True, "s1": True, "s2": True}
    pairs = [(a, b) for a in range(nl) for b in range(nl)]
    if tier != "thorough":
        pairs = [(0, 0), (0, 1), (1, 2), (3, 0), (4, 0), (5, 3), (1, 5), (2, 4)]
    for a, b in pairs:
        P.append(Part(H + "h_history", {"runs": 2, "fix": dict(calm, l0=a, l1=b, kill_run=0)}, "crash[run 1 killed|l0=%d,l1=%d]" % (a, b), group="crash", timeout=1800, path_timeout=120))
    if tier == "thorough":
        for a in range(nl):
            for b in range(nl):
                P.append(Part(H + "h_history", {"runs": 3, "fix": {"l0": a, "l1": b, "kill_run": -1, "s0": True, "s1": a % 2 == 0, "s2": True}}, "history[3 runs|l0=%d,l1=%d]" % (a, b), group="history", timeout=3000, path_timeout=200))
                P[-1].params["fix"].update({"t0": 0, "t1": (a + b) % 3, "t2": 0})
                P.append(Part(H + "h_history", {"runs": 3, "fix": dict(calm, l0=a, l1=b, l2=a, kill_run=1)}, "crash[run 2 of 3 killed|l0=%d,l1=%d,l2=%d]" % (a, b, a), group="crash", timeout=3000, path_timeout=200))
    for tw, kill in (("killed", 0), ("after-kill", 0), ("hit", -1)):
        P.append(Part(H + "h_history", {"runs": 2, "twin": tw, "fix": dict(calm, l0=0, l1=0, kill_run=kill)}, "history.twin[%s]" % tw, kind="twin", group="history", timeout=900))
    return P


def extra(tier):
    from vf.harness import pipecore as pc

    return {"obligations": [], "findings": pc.witness_findings("C12")}
