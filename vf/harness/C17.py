"""C17 -- benchmark comparison ignores molecule order and SMILES spelling."""
from __future__ import annotations

import ast
import itertools
import time

import z3

from vf import engine_smt as S
from vf.engine_xh import Part

import synrbl.SynUtils.chem_utils as cu

PART = {}
H = "vf.harness.C17:"

ENCODES = [
    "synrbl.SynUtils.chem_utils:normalize_smiles",
    "synrbl.SynUtils.chem_utils:canon_smiles",
    "synrbl.SynUtils.chem_utils:remove_stereo_chemistry",
    "synrbl.SynUtils.chem_utils:count_atoms",
    "synrbl.SynUtils.chem_utils:wc_similarity",
    "synrbl.SynUtils.chem_utils:_get_diff_mol",
]
EXPLANATION = (
    "Sort key (E2): the key lambda of normalize_smiles is extracted from the current source; every tuple component "
    "that is not the token itself becomes an uninterpreted function of the token and z3 decides 'exists x != y with "
    "key(x) = key(y)'. unsat = the sort is a total order on distinct tokens for ALL strings, hence the joined string "
    "does not depend on the input order. sat = candidate; it is concretised by searching short C/N/O chain SMILES "
    "with the real key and replayed on the real normalize_smiles with real RDKit. "
    "Permutation invariance, idempotence and the similarity wrapper (E1): the real normalize_smiles / wc_similarity "
    "/ _get_diff_mol run under CrossHair with canonicalisation stubbed as an idempotent map and the fingerprint "
    "similarity stubbed as an arbitrary symmetric function into [0,1]; which tokens appear, in which order, and the "
    "similarity values are solver-chosen."
)
BOUNDS = [
    "sort key query: unbounded strings (uninterpreted components)",
    "E1 normalisation: <= 3 molecules per side drawn from a pool of 7 tokens containing anagram pairs, equal-length pairs and two spellings of one molecule; all permutations. E1 similarity: two reactant molecules in the expected reaction, one to three in the compared one, from a pool of 4 (anagram pair + two spellings of one molecule), one fixed product, similarity value in {0,1/4,..,1}",
]
STUBS = [
    "Chem.MolFromSmiles/SanitizeMol/MolToSmiles inside the real canon_smiles -> idempotent canonical map on the pool (second spellings of ethanol and methanol map to the canonical token): RDKit's canonicalisation contract",
    "fingerprint generators / DataStructs similarity -> arbitrary symmetric function of the two compared molecule sets into [0,1]; numpy.min -> min",
    "rdmolfiles.MolFromSmiles / Chem.RWMol in _get_diff_mol -> opaque molecule-set objects",
]
OUTSIDE = ["that RDKit's canonical SMILES is spelling-independent and that Tanimoto/Dice are symmetric and in [0,1] (contracts); stereo marks"]
ASSUMPTIONS = STUBS


# ------------------------------------------------------------------ E2: sort key
def _key_lambda():
    tree = S.function_ast(cu.normalize_smiles)
    for node in ast.walk(tree):
        if isinstance(node, ast.Call) and isinstance(node.func, ast.Attribute) and node.func.attr in ("sort",) or (
            isinstance(node, ast.Call) and isinstance(node.func, ast.Name) and node.func.id == "sorted"
        ):
            for kw in node.keywords:
                if kw.arg == "key" and isinstance(kw.value, ast.Lambda):
                    return kw.value
    raise S.Untranslatable("no sort(key=lambda ...) in normalize_smiles")


def _sort_key_obligation(tier):
    t0 = time.time()
    try:
        lam = _key_lambda()
    except S.Untranslatable as e:
        # no key at all: plain string sort is a total order
        src = "(no key)"
        tree = S.function_ast(cu.normalize_smiles)
        has_sort = any(isinstance(n, ast.Call) and isinstance(n.func, ast.Attribute) and n.func.attr == "sort" for n in ast.walk(tree))
        return {"name": "sort_key.injective", "engine": "smt", "group": "sort-key", "queries": 0,
                "status": "discharged" if has_sort else "inconclusive", "detail": "%s; plain sort present: %s" % (e, has_sort)}
    arg = lam.args.args[0].arg
    body = lam.body
    comps = list(body.elts) if isinstance(body, ast.Tuple) else [body]
    x, y = z3.String("x"), z3.String("y")
    asr = [x != y]
    desc = []
    for i, c in enumerate(comps):
        if isinstance(c, ast.Name) and c.id == arg:
            asr.append(x == y)
            desc.append("x")
        else:
            f = z3.Function("f%d" % i, z3.StringSort(), z3.IntSort())
            asr.append(f(x) == f(y))
            desc.append("f%d(x) = %s" % (i, ast.unparse(c)))
    r, model, dt, smt2 = S.solve(asr, model_vars={"x": x, "y": y})
    ob = {"name": "sort_key.injective", "engine": "smt", "group": "sort-key", "queries": 1, "solver_s": round(dt, 3),
          "query": "exists x != y: key(x) == key(y), key = (%s)" % ", ".join(desc)}
    if r == "unsat":
        ob["status"] = "discharged"
        ob["detail"] = "unsat: distinct tokens have distinct sort keys, so the sorted order (and the joined string) does not depend on the input order"
        if tier == "thorough":
            ob["cvc5"] = S.cvc5_check(smt2)
            if ob["cvc5"] == "sat":
                ob["status"] = "harness_error"
        return ob
    if r != "sat":
        ob["status"] = "inconclusive"
        ob["detail"] = "z3: %s" % r
        return ob
    # candidate: the key may collide.  Concretise with the real key on short chain SMILES and replay.
    keyfn = eval(compile(ast.Expression(lam), "<key>", "eval"), dict(cu.__dict__))
    seen = {}
    tried = 0
    for L in range(2, 6):
        for tup in itertools.product("CNO", repeat=L):
            s = "".join(tup)
            try:
                c = cu.canon_smiles(s)
            except Exception:
                continue
            if c != s:
                continue  # only canonical spellings survive normalisation
            k = keyfn(s)
            if k in seen and seen[k] != s:
                a, b = seen[k], s
                tried += 1
                n1 = cu.normalize_smiles(a + "." + b)
                n2 = cu.normalize_smiles(b + "." + a)
                if n1 != n2:
                    ob["status"] = "violation"
                    ob["detail"] = "key collision key(%r) == key(%r) == %r: normalize_smiles(%r) = %r but normalize_smiles(%r) = %r" % (a, b, k, a + "." + b, n1, b + "." + a, n2)
                    ob["replay_payload"] = {"a": a, "b": b}
                    ob["solver_s"] = round(time.time() - t0, 3)
                    return ob
            seen.setdefault(k, s)
    ob["status"] = "inconclusive"
    ob["detail"] = "abstract query sat (key components are not injective as uninterpreted functions) but no concrete colliding pair among C/N/O chains up to 5 atoms reproduced (%d tried)" % tried
    return ob


# ------------------------------------------------------------------ E1: permutation invariance / similarity
POOL = ["CCCO", "CCOC", "CC", "OC", "C(C)O", "CCO", "N"]
CANON = {"C(C)O": "CCO", "OC": "CO"}  # second spellings of ethanol and of methanol (a two-character SMILES)


class _MolSet:
    def __init__(self, key):
        self.key = key


class _RWMol(_MolSet):
    def __init__(self):
        super().__init__("")


class _Chem:
    """canon_smiles itself stays real: MolFromSmiles(sanitize=False) / SanitizeMol / MolToSmiles are the stubs"""

    RWMol = _RWMol

    @staticmethod
    def MolFromSmiles(s, sanitize=True):
        return _MolSet(s)

    @staticmethod
    def SanitizeMol(m):
        return None

    @staticmethod
    def MolToSmiles(m):
        return ".".join(CANON.get(t, t) for t in m.key.split("."))


class _rdmolfiles:
    @staticmethod
    def MolFromSmiles(s):
        return _MolSet(s)


_SIM = {}


class _NP:
    @staticmethod
    def min(xs):
        m = xs[0]
        for v in xs[1:]:
            if v < m:
                m = v
        return m


class _FPGen:
    def GetFingerprint(self, mol):
        return mol

    def GetSparseCountFingerprint(self, mol):
        return mol


class _AllChem:
    @staticmethod
    def GetRDKitFPGenerator(**k):
        return _FPGen()


class _rdFP:
    @staticmethod
    def GetMorganGenerator(**k):
        return _FPGen()

    @staticmethod
    def GetMorganFeatureAtomInvGen():
        return None


class _DS:
    @staticmethod
    def _sim(a, b):
        if a.key == b.key:
            return 4
        k = (a.key, b.key) if a.key <= b.key else (b.key, a.key)
        return _SIM.get(k, _SIM.get("default", 0))

    TanimotoSimilarity = _sim
    DiceSimilarity = _sim


def _install():
    cu.Chem = _Chem
    cu.rdmolfiles = _rdmolfiles
    cu.np = _NP
    cu.AllChem = _AllChem
    cu.rdFingerprintGenerator = _rdFP
    cu.DataStructs = _DS


_REAL = {}
for _n in ("Chem", "rdmolfiles", "np", "AllChem", "rdFingerprintGenerator", "DataStructs"):
    if not hasattr(cu, _n):
        raise RuntimeError("patch point missing: chem_utils.%s" % _n)
    _REAL[_n] = getattr(cu, _n)


def _restore():
    for n, v in _REAL.items():
        setattr(cu, n, v)


PERMS3 = list(itertools.permutations(range(3)))


def _side(ks, n):
    return [POOL[k] for k in ks[:n]]


def h_norm(k0: int, k1: int, k2: int, p: int) -> bool:
    """
    pre: 0 <= k0 < 7 and 0 <= k1 < 7 and 0 <= k2 < 7 and 0 <= p < 6
    post: _
    """
    _install()
    n = PART.get("n", 3)
    if "k0" in PART:
        k0 = PART["k0"]
    toks = _side([k0, k1, k2], n)
    perm = [i for i in PERMS3[p] if i < n]
    s1 = ".".join(toks)
    s2 = ".".join(toks[i] for i in perm)
    n1 = cu.normalize_smiles(s1)
    n2 = cu.normalize_smiles(s2)
    if PART.get("twin"):
        return n1 == s1
    if n1 != n2:
        return False
    if cu.normalize_smiles(n1) != n1:
        return False
    # the result is a permutation of the canonical tokens
    if sorted(n1.split(".")) != sorted(CANON.get(t, t) for t in toks):
        return False
    # reaction level: each side separately
    r1 = cu.normalize_smiles(s1 + ">>" + s2)
    return r1 == n1 + ">>" + n1


SPOOL = ["CCCO", "CCOC", "C(C)O", "CCO"]


def h_sim(a1: int, b0: int, b1: int, p: int, s1: int, nb: int) -> bool:
    """
    pre: 0 <= a1 < 4 and 0 <= b0 < 4 and 0 <= b1 < 4
    pre: 0 <= p < 2 and 0 <= s1 <= 4 and 1 <= nb <= 3
    post: _
    """
    _install()
    method = PART.get("method", "pathway")
    _SIM.clear()
    _SIM["default"] = s1
    ea = [SPOOL[PART.get("a0", 0)], SPOOL[a1]]
    ra = [SPOOL[b0], SPOOL[b1], "CC"][:nb] if nb != 1 else [SPOOL[b0]]
    prod = "N"
    exp = ".".join(ea) + ">>" + prod
    res = ".".join(ra) + ">>" + prod
    # order variant of `exp` (spelling variants are in the pool: C(C)O / CCO)
    var = ".".join(ea[::-1] if p == 1 else ea) + ">>" + prod
    v = cu.wc_similarity(exp, var, method)
    if PART.get("twin"):
        return cu.wc_similarity(exp, res, method) == 1
    if v != 1:
        return False
    x = cu.wc_similarity(exp, res, method)
    y = cu.wc_similarity(res, exp, method)
    if x != y:
        return False
    # similarity values are carried as integers 0..4 (quarters); 1 is the literal returned for identical reactions
    if not (0 <= x <= 4):
        return False
    return True


def plan(tier):
    P = [
        Part(H + "h_norm", {"n": 2}, "normalize[2 tokens]", group="normalize", timeout=600),
        Part(H + "h_norm", {"n": 3, "twin": 1}, "normalize.twin", kind="twin", group="normalize", timeout=300),
        Part(H + "h_sim", {"twin": 1}, "wc_similarity.twin", kind="twin", group="similarity", timeout=300),
    ]
    for k0 in range(len(POOL)):
        if tier == "thorough" or k0 in (0, 1, 4):
            P.append(Part(H + "h_norm", {"n": 3, "k0": k0}, "normalize[3 tokens,k0=%d]" % k0, group="normalize", timeout=1200))
    for method in (("pathway", "ecfp", "ecfp_inv") if tier == "thorough" else ("pathway",)):
        for a0 in range(4):
            P.append(Part(H + "h_sim", {"a0": a0, "method": method}, "wc_similarity[%s,a0=%d]" % (method, a0), group="similarity", timeout=900))
    return P


def extra(tier):
    from vf.harness import pipecore as pc

    _restore()  # the E2 concretisation and its replay use the real RDKit-backed functions
    return {"obligations": [_sort_key_obligation(tier)], "findings": pc.witness_findings("C17")}


def replay(data):
    a, b = data.get("a"), data.get("b")
    _restore()
    if a and b:
        return {"reproduced": cu.normalize_smiles(a + "." + b) != cu.normalize_smiles(b + "." + a)}
    return {"reproduced": False}
