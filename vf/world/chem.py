"""Abstract chemistry: the RDKit entry points the analysed code calls are
replaced (in the harness process only) by stubs that return arbitrary values
constrained by the library's documented contract (DESIGN.md 2.2, 6)."""
from __future__ import annotations

import rdkit.Chem as _RealChem

REAL_CHEM = _RealChem
_pt = _RealChem.GetPeriodicTable()
# reference periodic table, read from RDKit once per run: index = atomic number
REF_SYMBOLS = ["*"] + [_pt.GetElementSymbol(z) for z in range(1, 119)]


class StubMissing(BaseException):
    """The code under analysis used a part of the RDKit API that the stub world does not model.  This is a limit of
    the harness, never a property violation: the engine reports it as a harness error (exit 3).  BaseException so
    that the broad `except Exception` handlers of the code under analysis cannot swallow it."""


def _missing(obj, name):
    raise StubMissing("%s has no stub for RDKit attribute %r" % (type(obj).__name__, name))


class FakeAtom:
    __slots__ = ("z", "q", "idx", "sym")

    def __getattr__(self, name):
        if name.startswith("__"):
            raise AttributeError(name)
        _missing(self, name)

    def __init__(self, z, q=0, idx=0, sym=None):
        self.z = z
        self.q = q
        self.idx = idx
        self.sym = sym

    def GetAtomicNum(self):
        return self.z

    def GetSymbol(self):
        if self.sym is not None:
            return self.sym
        return REF_SYMBOLS[self.z]

    def GetFormalCharge(self):
        return self.q

    def GetIdx(self):
        return self.idx


class FakeMol:
    """A molecule *with all hydrogens explicit* (contract of AddHs)."""

    def __init__(self, atoms, charge=0):
        self.atoms = list(atoms)
        self.charge = charge

    def GetAtoms(self):
        return list(self.atoms)

    def GetNumAtoms(self):
        return len(self.atoms)

    def __bool__(self):
        # RDKit Mol objects are truthy
        return True

    def __getattr__(self, name):
        if name.startswith("__") or name in ("atoms", "charge"):
            raise AttributeError(name)
        _missing(self, name)


class SingleMolChem:
    """Chem stand-in that parses every SMILES to one given FakeMol (or None)."""

    def __init__(self, mol):
        self.mol = mol

    def MolFromSmiles(self, smiles, *a, **k):
        return self.mol

    def AddHs(self, mol):
        return mol

    def GetFormalCharge(self, mol):
        return mol.charge
