#!/bin/sh
# usage: tools/try_mutant.sh <patch.diff> <tier> <PID> [<PID>...]
# Applies a seeded change to a scratch worktree of /repo (never to /repo itself), runs the named checks against
# that worktree (VERIF_REPO), prints their verdict lines, removes the worktree.  Evidence and replay files of these
# runs go to .work/mut-evidence, not to /verif/evidence.
patch=$(readlink -f "$1"); tier=$2; shift 2
cd /verif
wt=/tmp/mutrepo-$$
git -C /repo worktree add -q --detach $wt HEAD || exit 2
# seeded changes were written against c38f85e; apply on the current HEAD with a 3-way fallback
( cd $wt && { git apply "$patch" 2>/dev/null || git apply --3way "$patch" 2>/dev/null; } ) || { echo "patch does not apply on HEAD"; git -C /repo worktree remove --force $wt; exit 2; }
( cd $wt && git diff --quiet HEAD && git diff --cached --quiet HEAD ) && { echo "patch applied to nothing"; }
for p in "$@"; do
  out=$(VERIF_REPO=$wt VERIF_EVIDENCE_DIR=/verif/.work/mut-evidence VERIF_REPLAY_DIR=/verif/.work/mut-replays bin/check $p --tier $tier 2>&1); rc=$?
  echo "== $p rc=$rc"; echo "$out" | grep -E "^(property=|VIOLATION|HARNESS-ERROR|KNOWN-FINDING|INCONCLUSIVE|  violation)" | cut -c1-400 | head -8
done
git -C /repo worktree remove --force $wt
