"""C14 -- composition-determined outcomes ignore how the SMILES is written (pipeline harness, two spellings in one path)."""
from __future__ import annotations

from vf import kf
from vf.engine_xh import Part
from vf.harness import pipecore as pc
from vf.world import pipe
from vf.world.pipe import W

PART = {}
H = "vf.harness.C14:"
KF_MARKER = "C14-given-marker-molecule-position-sensitive"

ENCODES = pc.ENCODES_PIPE + ["synrbl.SynUtils.chem_utils:remove_atom_mapping", "synrbl.SynRuleImputer.synthetic_rule_constraint:RuleConstraint.check_no_constraint", "synrbl.SynRuleImputer.synthetic_rule_constraint:RuleConstraint.check_even"]
STUBS = pc.STUBS_PIPE + ["an equivalent spelling of an abstract molecule is an alias token with the same composition, charge and validity (that RDKit parses two spellings to the same molecule is the contract); MCS and functional-group outcomes are keyed by the molecules, not by their spelling or order"]
ASSUMPTIONS = STUBS
BOUNDS = pc.BOUNDS_PIPE + ["spelling pairs: permutation of two molecules within a side, alias spelling of an abstract molecule, atom-map decoration of the real molecules (water, H2), [HH] for [H][H]; one reaction per run"]
OUTSIDE = pc.OUTSIDE_PIPE + ["random SMILES enumeration / kekulisation of real molecules (RDKit canonicalisation); outcomes decided by the MCS stage"]
EXPLANATION = (
    "Two spellings of one reaction are run through the real pipeline in the same symbolic path (compositions, "
    "charges and environment outcomes are solver variables shared by both runs). Whenever one spelling ends "
    "input-balanced or rule-based, the other must end with the same verdict and method and with the same multiset of "
    "added molecules per side. The string-level marker tests of the rule constraint step run as real code on the "
    "real marker molecules."
)


def _added(row, given):
    """per side: sorted list of tokens of row['reaction'] not accounted for by the given reaction (alias-normalised)"""
    out = []
    po = row["reaction"].split(">>")
    pi = given.split(">>")
    for s in (0, 1):
        have = [pc.ALIAS.get(t, t) for t in po[s].split(".")]
        for t in pi[s].split("."):
            t = pc.ALIAS.get(t, t)
            if t in have:
                have.remove(t)
        out.append(sorted(have))
    return out


def h_main(jC: int, jH: int, jO: int, jq: int, qC: int, qH: int, qO: int, qq: int,
      wC: int, wH: int, wO: int, wq: int, xC: int, xH: int, xO: int, xq: int,
      jjC: int, jjH: int, jjO: int, jjq: int, wwC: int, wwH: int, wwO: int, wwq: int,
      m1: int, m2: int, f1: int, f2: int, c1: int, c2: int, thr: int) -> bool:
    """
    post: _
    """
    a = dict(locals())
    rows = []
    for sp in (PART["rho"], PART["rho2"]):
        r = pc.explore(dict(PART, shape=[PART["rho"]]), a, thr=None, rows=[{"reaction": sp}])
        if r is None:
            return True
        out, _ = r
        if len(out) != 1:
            return True  # row loss is C05's subject
        rows.append(out[0])
    tw = PART.get("twin")
    ra, rb = rows
    clean = [pipe_clean(PART["rho"]), pipe_clean(PART["rho2"])]
    for x, y, gx, gy in ((ra, rb, clean[0], clean[1]), (rb, ra, clean[1], clean[0])):
        if x["solved"] and x.get("solved_by") in ("input-balanced", "rule-based"):
            if tw == "composition":
                return False
            if (in_marker_region(PART["rho"]) or in_marker_region(PART["rho2"])) and kf.active(KF_MARKER):
                continue  # known finding: inside the region only C01-C03 constrain the outcome
            if not y["solved"] or y.get("solved_by") != x.get("solved_by"):
                return False
            if _added(x, gx) != _added(y, gy):
                return False
    return True


def in_marker_region(rx):
    """Trigger region of the known finding: a GIVEN complete molecule [H], [O] or OO (free-atom placeholder, hydrogen
    peroxide) on the product side -- or [H] / [O] on the reactant side -- that is not the first molecule of its side:
    the rule constraint step takes it for a placeholder appended by a completion."""
    parts = pipe_clean(rx).split(">>")
    if len(parts) != 2:
        return False
    for t in parts[0].split(".")[1:]:
        if t in ("[H]", "[O]"):
            return True
    for t in parts[1].split(".")[1:]:
        if t in ("[H]", "[O]", "OO"):
            return True
    return False


def pipe_clean(rx):
    from synrbl.SynUtils.chem_utils import remove_atom_mapping

    return remove_atom_mapping(rx)


PAIRS = [
    # (name, rho, rho2, inside the known region?)
    ("perm-reactants[water]", "j.O>>q", "O.j>>q", False),
    ("perm-products[water]", "j>>q.O", "j>>O.q", False),
    ("perm-reactants[H2]", "j.[H][H]>>q", "[H][H].j>>q", False),
    ("perm-products[H2]", "j>>q.[H][H]", "j>>[H][H].q", True),
    ("perm-products[H2O2]", "j>>q.OO", "j>>OO.q", True),
    ("perm-reactants[H2O2]", "j.OO>>q", "OO.j>>q", False),
    ("perm-abstract", "j.w>>q", "w.j>>q", False),
    ("perm-reactants[hydride]", "[H-].j>>q", "j.[H-]>>q", False),
    ("alias-duplicate", "j.j>>q", "j.jx>>q", False),
    ("alias-reactant", "j>>q", "jx>>q", False),
    ("alias-product", "j>>q", "j>>qx", False),
    ("atom-map[water]", "j.O>>q", "j.[OH2:3]>>q", False),
    ("atom-map[H2,reactants]", "j.[H][H]>>q", "j.[H:1][H:2]>>q", False),
    ("spelling[H2,reactants]", "j.[H][H]>>q", "j.[HH]>>q", False),
    ("spelling[H2,products]", "j>>[H][H].q", "j>>[HH].q", False),
]


def plan(tier):
    P = []
    for name, rho, rho2, known in PAIRS:
        if tier != "thorough" and name in ("perm-reactants[H2O2]", "alias-product", "atom-map[water]", "spelling[H2,products]"):
            continue
        K = 1 if "w" in rho else 2
        for jq in (-1, 0, 1):
            if tier != "thorough" and jq != 0 and name not in ("perm-reactants[water]",):
                continue
            params = {"rho": rho, "rho2": rho2, "shape": [rho], "E": ["C", "H"], "K": K, "known": known, "fix": {"m1": 0, "jq": jq}}
            P.append(Part(H + "h_main", params, "spell[%s|jq=%d]" % (name, jq), group="spelling", timeout=1800, path_timeout=200))
    P.append(Part(H + "h_main", {"rho": "j.O>>q", "rho2": "O.j>>q", "shape": ["j.O>>q"], "E": ["C", "H"], "K": 2, "known": False, "twin": "composition", "fix": {"m1": 0, "jq": 0, "qq": 0}},
                  "spell.twin", kind="twin", group="spelling", timeout=600))
    return P


def extra(tier):
    return {"obligations": [], "findings": pc.witness_findings("C14")}
