"""C13 -- the confidence threshold only demotes low-confidence MCS results (kernel)."""
from __future__ import annotations

import copy

from vf.engine_xh import Part

import synrbl.confidence_prediction as _cp
from synrbl.confidence_prediction import ConfidencePredictor

PART = {}
H = "vf.harness.C13:"

ENCODES = ["synrbl.confidence_prediction:ConfidencePredictor.predict", "synrbl.balancing:Balancer._Balancer__run_pipeline"]
EXPLANATION = (
    "The real ConfidencePredictor.predict is executed symbolically (CrossHair+z3, real-valued floats) on a batch "
    "of rows of every method with symbolic model outputs c in [0,1] and two symbolic thresholds t1<=t2; the "
    "feature extraction, pandas frame, numpy rounding and the xgboost model are stubs that hand predict an "
    "arbitrary number per MCS row. Every partition (row layout) is explored to path exhaustion."
)
BOUNDS = ["pipeline level: one reaction j>>q through the real pipeline (MCS succeeds, merge result symbolic), confidence and threshold in {0,1/4,..,1}, the same Balancer instance run with the symbolic threshold and then with threshold 0", "row layouts of <= 4 rows (0..2 mcs-based rows mixed with input-balanced, rule-based and unsolved rows); confidences and thresholds arbitrary reals in [0,1]"]
STUBS = [
    "count_boundary_atoms_products_and_calculate_changes, calculate_chemical_properties -> identity (features cannot see the threshold: it is not an argument of either)",
    "pandas.DataFrame / column selection -> opaque frame; model.predict_proba -> arbitrary numbers in [0,1] per row; numpy.round -> identity",
    "threshold passed as a comparable object that formats to a placeholder (a symbolic number must not reach str.format)",
]
OUTSIDE = ["that xgboost's output lies in [0,1]; float32 -> float64 widening of the rounded score; rounding to 3 decimals"]
ASSUMPTIONS = STUBS

_CONF = []  # symbolic confidences of the current path, consumed by the fake model


class Num:
    """numpy-scalar stand-in: supports .item() and >= against a Thr"""

    def __init__(self, v):
        self.v = v

    def item(self):
        return self.v

    def __ge__(self, other):
        return self.v >= (other.v if isinstance(other, (Thr, Num)) else other)

    def __lt__(self, other):
        return self.v < (other.v if isinstance(other, (Thr, Num)) else other)

    def __gt__(self, other):
        return self.v > (other.v if isinstance(other, (Thr, Num)) else other)

    def __le__(self, other):
        return self.v <= (other.v if isinstance(other, (Thr, Num)) else other)


_THR = {}


class Thr:
    """The threshold as the pipeline sees it.  The symbolic value is kept out of the object
    (module-level table) because CrossHair deep-realises every attribute of a str.format argument."""

    __slots__ = ("tag",)

    def __init__(self, v, tag):
        _THR[tag] = v
        self.tag = tag

    @property
    def v(self):
        return _THR[self.tag]

    def __format__(self, spec):
        return "<thr:%s>" % self.tag

    def __le__(self, other):
        return self.v <= (other.v if isinstance(other, (Thr, Num)) else other)

    def __ge__(self, other):
        return self.v >= (other.v if isinstance(other, (Thr, Num)) else other)

    def __lt__(self, other):
        return self.v < (other.v if isinstance(other, (Thr, Num)) else other)

    def __gt__(self, other):
        return self.v > (other.v if isinstance(other, (Thr, Num)) else other)


class _Frame:
    def __init__(self, rows):
        self.rows = rows

    def __getitem__(self, cols):
        return self


class _PD:
    @staticmethod
    def DataFrame(rows):
        return _Frame(list(rows))


class _Col:
    def __init__(self, vals):
        self.vals = vals

    def __getitem__(self, idx):
        return [Num(v) for v in self.vals]


class _Model:
    def predict_proba(self, X):
        return _Col([_CONF[i] for i in range(len(X.rows))])


class _NP:
    @staticmethod
    def round(xs, nd):
        return xs


def _install():
    _cp.pd = _PD
    _cp.np = _NP
    _cp.count_boundary_atoms_products_and_calculate_changes = lambda rows, rc, mc: rows
    _cp.calculate_chemical_properties = lambda rows: rows


def _predictor():
    p = ConfidencePredictor.__new__(ConfidencePredictor)
    p.model = _Model()
    p.reaction_col = "reaction"
    p.input_reaction_col = "input_reaction"
    p.confidence_col = "confidence"
    p.solved_col = "solved"
    p.solved_by_col = "solved_by"
    p.solved_by_method = "mcs-based"
    p.issue_col = "issue"
    p.mcs_col = "mcs"
    return p


def _rows(layout):
    rows = []
    for i, kind in enumerate(layout):
        r = {"id": str(i), "reaction": "A%d>>B%d" % (i, i), "input_reaction": "A%d>>B%d" % (i, i), "issue": "", "solved": True}
        if kind == "m":
            r["solved_by"] = "mcs-based"
            r["mcs"] = {"boundary_atoms_products": []}
        elif kind == "r":
            r["solved_by"] = "rule-based"
        elif kind == "i":
            r["solved_by"] = "input-balanced"
        elif kind == "u":
            r["solved"] = False
            r["issue"] = "No MCS identified."
        elif kind == "x":  # unsolved row that had been attributed earlier is impossible; unsolved w/o key
            r["solved"] = False
            r["issue"] = "Final reaction is unbalanced."
        rows.append(r)
    return rows


def h_predict(c0: float, c1: float, t1: float, t2: float) -> bool:
    """
    pre: 0.0 <= c0 <= 1.0 and 0.0 <= c1 <= 1.0
    pre: 0.0 <= t1 <= t2 <= 1.0
    post: _
    """
    _install()
    layout = PART["layout"]
    confs = [c0, c1]
    outs = []
    for t, tag in ((t1, "t1"), (t2, "t2")):
        rows = _rows(layout)
        before = copy.deepcopy(rows)
        _CONF[:] = confs
        stats = {}
        ret = _predictor().predict(rows, stats=stats, threshold=Thr(t, tag))
        kept = 0
        k = 0
        for r, b in zip(rows, before):
            if b.get("solved_by") == "mcs-based":
                c = confs[k]
                k += 1
                # the reported confidence is the model output, possibly rounded to 3 decimals; the decision is
                # taken on the reported value
                rep = r.get("confidence")
                if not (c - 0.0005 <= rep <= c + 0.0005):
                    return False
                c = rep
                if c >= t:
                    kept += 1
                    if r["solved"] is not True or r["issue"] != "":
                        return False
                else:
                    if r["solved"] is not False:
                        return False
                    if "<thr:%s>" % tag not in r["issue"] or "threshold" not in r["issue"]:
                        return False
                # nothing else on the row changes
                for key in b:
                    if key not in ("solved", "issue", "confidence") and r.get(key) != b[key]:
                        return False
                if set(r) - set(b) - {"confidence", "reactants", "products"}:
                    return False
            else:
                if r != b:
                    return False
        if stats.get("confident_cnt") != kept:
            return False
        if len(ret) != sum(1 for x in layout if x == "m"):
            return False
        outs.append(rows)
    tw = PART.get("twin")
    if tw == "demoted":
        return all(r["solved"] for r in outs[1])
    if tw == "kept":
        return not any(r["solved"] and r.get("solved_by") == "mcs-based" for r in outs[1])
    # monotone in the threshold; rows other than mcs-based identical for both thresholds
    for ra, rb in zip(outs[0], outs[1]):
        if rb["solved"] and not ra["solved"]:
            return False
        if ra.get("solved_by") != "mcs-based" and ra != rb:
            return False
        if ra.get("confidence") != rb.get("confidence"):
            return False
    return True


# ---------------------------------------------------------------- pipeline level: the threshold the Balancer is
# asked to use at run time is the one that decides (one Balancer instance is reused with changing thresholds)
def h_pipe(jC: int, jH: int, jO: int, jq: int, qC: int, qH: int, qO: int, qq: int,
      wC: int, wH: int, wO: int, wq: int, xC: int, xH: int, xO: int, xq: int,
      jjC: int, jjH: int, jjO: int, jjq: int, wwC: int, wwH: int, wwO: int, wwq: int,
      m1: int, m2: int, f1: int, f2: int, c1: int, c2: int, thr: int) -> bool:
    """
    post: _
    """
    a = dict(locals())
    from vf.harness import pipecore as pc

    outs = []
    for t in (thr, PART.get("thr2", 0)):
        r = pc.explore(PART, dict(a), thr=t)
        if r is None:
            return True
        outs.append(r[0])
    tw = PART.get("twin")
    for out, t in zip(outs, (thr, PART.get("thr2", 0))):
        for row in out:
            if row.get("solved_by") == "mcs-based":
                if tw == "mcs":
                    return False
                if row.get("confidence") != c1:
                    return False
                if bool(row["solved"]) != (c1 >= t):
                    return False
                if not row["solved"] and (not isinstance(row.get("issue"), str) or "threshold" not in row["issue"]):
                    return False
    # rows that are not mcs-based are identical under both thresholds
    for ra, rb in zip(outs[0], outs[1]):
        if ra.get("solved_by") != "mcs-based" and rb.get("solved_by") != "mcs-based":
            for k in ("reaction", "solved", "solved_by", "issue"):
                va, vb = ra.get(k), rb.get(k)
                if va != vb and not (pc.is_nan(va) and pc.is_nan(vb)):
                    return False
    return True


def plan(tier):
    layouts = ["m", "mm", "imr", "umrm", "u", "ir", "miu"]
    if tier == "thorough":
        layouts += ["mmu", "rmim", "uxm", "mxm", "", "xmum"]
    P = [Part(H + "h_predict", {"layout": l}, "predict[%s]" % (l or "empty"), group="predict", timeout=600) for l in layouts]
    for jq in ((-1, 0, 1) if tier == "thorough" else (0,)):
        P.append(Part(H + "h_pipe", {"shape": ["j>>q"], "E": ["C", "H"], "K": 2, "thr2": 0, "fix": {"m1": 4, "jq": jq, "qq": 0, "jjq": 0}},
                      "pipeline-threshold[j>>q|m=4,jq=%d]" % jq, group="pipeline", timeout=1800, path_timeout=200))
    P.append(Part(H + "h_pipe", {"shape": ["j>>q"], "E": ["C", "H"], "K": 2, "thr2": 0, "twin": "mcs", "fix": {"m1": 4, "jq": 0, "qq": 0, "jjq": 0}},
                  "pipeline-threshold.twin", kind="twin", group="pipeline", timeout=600))
    P.append(Part(H + "h_predict", {"layout": "mm", "twin": "demoted"}, "predict.twin[demoted]", kind="twin", group="predict"))
    P.append(Part(H + "h_predict", {"layout": "mm", "twin": "kept"}, "predict.twin[kept]", kind="twin", group="predict"))
    return P
