"""C15 -- atom-map removal keeps every molecule chemically identical (E2: z3 queries generated from the source)."""
from __future__ import annotations

import ast
import re
import time

import z3

from vf import engine_smt as S
from vf import kf

try:
    import re._parser as sre_parse
    import re._constants as sre_c
except Exception:  # pragma: no cover
    import sre_parse
    import sre_constants as sre_c

import synrbl.SynUtils.chem_utils as cu
from synrbl.SynRuleImputer.synthetic_rule_constraint import RuleConstraint

KF_HYDRIDE = "C15-hypervalent-hydride-unbracketed"
KF_AROM = "C15-aromatic-bond-before-ring-digit"

ENCODES = [
    "synrbl.SynUtils.chem_utils:remove_atom_mapping",
    "synrbl.SynRuleImputer.synthetic_rule_constraint:RuleConstraint.remove_atom_mapping",
]
EXPLANATION = (
    "The regular-expression literals and replacement strings of remove_atom_mapping (and of RuleConstraint."
    "remove_atom_mapping) are extracted from the current source with ast, translated to z3 regular expressions by a "
    "translator over Python's own re._parser tree, and the property becomes unsat-queries over the OpenSMILES "
    "bracket-atom grammar (isotope, symbol from RDKit's periodic table + aromatic symbols, chirality, H count, "
    "charge, class as six string variables) plus a linear-integer query for the valence semantics of unbracketing "
    "(valence lists read from RDKit's periodic table at run time). unsat = holds for every string of the grammar; "
    "sat = concrete token, replayed on the real function (and real RDKit for the semantic query)."
)
BOUNDS = [
    "one bracket atom token of arbitrary field lengths (isotope <= 3 digits, charge magnitude <= 2 digits, class unbounded digits); strings outside brackets over the full non-bracket SMILES alphabet, unbounded length",
    "semantic query: bond-order sum 0..8, bracket H count absent/0..9, the ten organic-subset symbols",
]
STUBS = ["re.sub semantics: leftmost non-overlapping matches; for a pattern whose only variable-length item is a final greedy repeat of a character set, the match at a position is the longest one (structural condition checked on the parse tree, otherwise the obligation is inconclusive)"]
OUTSIDE = [
    "that RDKit parses two spellings of one bracket atom to the same atom (contract); multi-token interactions are excluded by the locality argument (a substitution only touches matched spans)",
    "dative/aromatic valence models beyond RDKit's default valence list; radicals and open-shell atoms (not closed-shell)",
]
ASSUMPTIONS = STUBS

ORGANIC = ["B", "C", "N", "O", "P", "S", "F", "Cl", "Br", "I"]
AROMATIC = ["b", "c", "n", "o", "p", "s", "se", "as", "te"]
DIGIT = z3.Range("0", "9")


def _lit(s):
    return z3.Re(z3.StringVal(s))


def _opt(r):
    return z3.Option(r)


def _symbols():
    from rdkit import Chem

    pt = Chem.GetPeriodicTable()
    return [pt.GetElementSymbol(z) for z in range(1, 119)]


def _valences():
    from rdkit import Chem

    pt = Chem.GetPeriodicTable()
    out = {}
    for s in ORGANIC:
        out[s] = sorted(v for v in pt.GetValenceList(s) if v >= 0)
    return out


def grammar():
    iso, sym, chi, hc, chg, cls = [z3.String(n) for n in ("iso", "sym", "chi", "hc", "chg", "cls")]
    syms = _symbols() + AROMATIC + ["*"]
    cons = [
        z3.InRe(iso, _opt(z3.Loop(DIGIT, 1, 3))),
        z3.InRe(sym, S.any_of(syms)),
        z3.InRe(chi, _opt(z3.Union(_lit("@"), _lit("@@"), z3.Concat(_lit("@"), S.any_of(["TH", "AL", "SP", "TB", "OH"]), z3.Loop(DIGIT, 1, 2))))),
        z3.InRe(hc, _opt(z3.Concat(_lit("H"), _opt(DIGIT)))),
        z3.InRe(chg, _opt(z3.Union(z3.Concat(_lit("+"), _opt(z3.Loop(DIGIT, 1, 2))), _lit("++"), z3.Concat(_lit("-"), _opt(z3.Loop(DIGIT, 1, 2))), _lit("--")))),
        z3.InRe(cls, _opt(z3.Concat(_lit(":"), z3.Plus(DIGIT)))),
    ]
    return (iso, sym, chi, hc, chg, cls), cons


def extract(fn):
    """[(regex literal, replacement literal)] in source order, from `re.compile(lit)` ... `.sub(repl, x)` pairs."""
    tree = S.function_ast(fn)
    comp = []
    subs = []
    for node in ast.walk(tree):
        if isinstance(node, ast.Call) and isinstance(node.func, ast.Attribute):
            if node.func.attr == "compile" and node.args and isinstance(node.args[0], ast.Constant):
                comp.append((node.lineno, node.col_offset, node.args[0].value))
            if node.func.attr == "sub" and node.args and isinstance(node.args[0], ast.Constant):
                subs.append((node.lineno, node.col_offset, node.args[0].value))
    comp.sort()
    subs.sort()
    if len(comp) != len(subs):
        raise S.Untranslatable("function is not a sequence of compile/sub pairs: %d compile, %d sub" % (len(comp), len(subs)))
    return [(c[2], s[2]) for c, s in zip(comp, subs)]


FULL = z3.Full(z3.ReSort(z3.StringSort()))


def _split_assertions(pattern):
    """(lookbehinds, core items, lookaheads): leading (?<=..)/(?<!..) and trailing (?=..)/(?!..) are split off and
    become constraints on the text before / after a match; assertions anywhere else are not encodable."""
    items = list(sre_parse.parse(pattern))
    lb, la = [], []
    while items and items[0][0] in (sre_c.ASSERT, sre_c.ASSERT_NOT) and items[0][1][0] == -1:
        op, (d, sub) = items.pop(0)
        lb.append((op == sre_c.ASSERT, S._tr(sub)))
    while items and items[-1][0] in (sre_c.ASSERT, sre_c.ASSERT_NOT) and items[-1][1][0] == 1:
        op, (d, sub) = items.pop()
        la.append((op == sre_c.ASSERT, S._tr(sub)))
    for op, av in items:
        if op in (sre_c.ASSERT, sre_c.ASSERT_NOT, sre_c.AT):
            raise S.Untranslatable("assertion/anchor inside the pattern")
    return lb, items, la


def _ctx_ok(lb, la, pre, post):
    cons = []
    for pos, r in lb:
        c = z3.InRe(pre, z3.Concat(FULL, r))
        cons.append(c if pos else z3.Not(c))
    for pos, r in la:
        c = z3.InRe(post, z3.Concat(r, FULL))
        cons.append(c if pos else z3.Not(c))
    return z3.And(*cons) if cons else z3.BoolVal(True)


def _longest_match_shape(pattern):
    """True iff Python's backtracking match of `pattern` at a position is the longest match: a sequence of
    fixed-length items followed by at most one greedy repeat of a single-character item, no alternation
    (look-around assertions at the two ends do not consume text and are ignored here)."""
    _lb, items, _la = _split_assertions(pattern)
    for i, (op, av) in enumerate(items):
        if op in (sre_c.LITERAL, sre_c.NOT_LITERAL, sre_c.IN, sre_c.ANY, sre_c.CATEGORY):
            continue
        if op == sre_c.MAX_REPEAT and i == len(items) - 1:
            lo, hi, body = av
            if len(body) == 1 and body[0][0] in (sre_c.LITERAL, sre_c.IN, sre_c.CATEGORY, sre_c.ANY, sre_c.NOT_LITERAL):
                continue
        return False
    return True


def _split_group(pattern, group):
    """(z3 regex of group, z3 regex of the items between the group and the final literal, ok) for a pattern of the
    shape LITERAL '[' , SUBPATTERN(group), ..., LITERAL ']'."""
    p = sre_parse.parse(pattern)
    items = list(p)
    gi = p.state.groupdict.get(group)
    if gi is None or len(items) < 3:
        raise S.Untranslatable("no group %r" % group)
    if items[0] != (sre_c.LITERAL, ord("[")) or items[-1] != (sre_c.LITERAL, ord("]")):
        raise S.Untranslatable("regex 2 is not of the shape \\[ ... \\]")
    if items[1][0] != sre_c.SUBPATTERN or items[1][1][0] != gi:
        raise S.Untranslatable("group %r is not the first item inside the brackets" % group)
    g = S._tr(items[1][1][3])
    rest = S._tr(items[2:-1])
    return g, rest


def _ob(name, group, assertions, model_vars, note, tier, replay=None, expect_unsat=True):
    t0 = time.time()
    r, model, dt, smt2 = S.solve(assertions, timeout_ms=120000, model_vars=model_vars)
    ob = {"name": name, "engine": "smt", "group": group, "queries": 1, "solver_s": round(dt, 3), "query": note}
    if r == "unsat":
        ob["status"] = "discharged"
        ob["detail"] = "unsat: " + note
        if tier == "thorough":
            c = S.cvc5_check(smt2)
            ob["cvc5"] = c
            if c == "sat":
                ob["status"] = "harness_error"
                ob["detail"] += " | cvc5 disagrees (sat)"
    elif r == "sat":
        rep = replay(model) if replay else {"reproduced": False, "outcome": "no replay defined"}
        ob["model"] = model
        ob["replay"] = rep
        if rep.get("reproduced"):
            ob["status"] = "violation"
            ob["detail"] = "sat: %s -> %s" % (model, rep.get("outcome"))
            ob["replay_payload"] = {"query": name, "model": model, "replay": rep}
        else:
            ob["status"] = "harness_error"
            ob["detail"] = "sat model does not replay on the real function: %s %s" % (model, rep)
    else:
        ob["status"] = "inconclusive"
        ob["detail"] = "z3 answered %s" % r
    return ob


def _token(m, with_cls=True):
    return "[" + m.get("iso", "") + m.get("sym", "") + m.get("chi", "") + m.get("hc", "") + m.get("chg", "") + (m.get("cls", "") if with_cls else "") + "]"


def _queries_regex1(fn, tag, lit, repl, tier):
    obs = []
    lb, core_items, la = _split_assertions(lit)
    R1 = S._tr(core_items)
    (iso, sym, chi, hc, chg, cls), G = grammar()
    mv = {"iso": iso, "sym": sym, "chi": chi, "hc": hc, "chg": chg, "cls": cls}
    real = re.compile(lit)

    def rep_token(m):
        tok = _token(m)
        got = fn(tok) if tag == "rc" else real.sub(repl, tok)
        want = _token(m, with_cls=False)
        return {"reproduced": got != want, "outcome": "sub(%r) on %r gives %r, expected %r" % (lit, tok, got, want)}

    if repl != "":
        obs.append({"name": "%s.regex1.replacement" % tag, "engine": "smt", "group": "regex1", "status": "violation", "queries": 0,
                    "detail": "class field is replaced by %r instead of being deleted" % repl, "replay_payload": {"query": "replacement", "repl": repl}})
    s = z3.String("s")
    obs.append(_ob("%s.regex1.starts-with-colon" % tag, "regex1", [z3.InRe(s, R1), z3.Not(z3.PrefixOf(z3.StringVal(":"), s))], {"s": s},
                   "no string matched by %r starts with anything but ':' (so a match can only start at a class field)" % lit, tier,
                   replay=lambda m: {"reproduced": real.fullmatch(m["s"]) is not None and not m["s"].startswith(":"), "outcome": "fullmatch(%r)" % m["s"]}))
    obs.append(_ob("%s.grammar.one-colon" % tag, "regex1", G + [z3.Contains(z3.Concat(iso, sym, chi, hc, chg), z3.StringVal(":"))], mv,
                   "no bracket-atom field other than the class contains ':'", tier))
    tail = z3.String("tail")
    pre_tok = z3.Concat(z3.StringVal("["), iso, sym, chi, hc, chg)
    obs.append(_ob("%s.regex1.class-matched-in-full" % tag, "regex1",
                   G + [cls != z3.StringVal(""), z3.Not(z3.And(z3.InRe(cls, R1), _ctx_ok(lb, la, pre_tok, z3.Concat(z3.StringVal("]"), tail))))], dict(mv, tail=tail),
                   "every non-empty class field ':n' is matched in full by %r, whatever stands before it inside the bracket and after the bracket" % lit, tier, replay=rep_token))
    obs.append(_ob("%s.regex1.no-overrun" % tag, "regex1", G + [cls != z3.StringVal(""), z3.InRe(z3.Concat(cls, z3.StringVal("]"), tail), R1)], dict(mv, tail=tail),
                   "no match of %r starting at the class field extends beyond it" % lit, tier,
                   replay=lambda m: {"reproduced": real.match(m["cls"] + "]" + m["tail"]).end() > len(m["cls"]), "outcome": "match overruns"}))
    ok_shape = _longest_match_shape(lit)
    obs.append({"name": "%s.regex1.longest-match-shape" % tag, "engine": "smt", "group": "regex1", "queries": 0,
                "status": "discharged" if ok_shape else "inconclusive",
                "detail": "parse tree of %r: fixed-length items then one final greedy single-character repeat (Python's match is then the longest match)" % lit})
    # outside brackets
    nb = z3.Star(z3.Union(*[_lit(c) for c in "BCNOPSFIlrbcnopsae-=#$:/\\0123456789%()."]))
    region = S.contains_match(z3.Concat(_lit(":"), DIGIT))
    known = kf.active(KF_AROM)
    pre, mid, post = z3.String("pre"), z3.String("mid"), z3.String("post")
    asr = [z3.InRe(s, nb), s == z3.Concat(pre, mid, post), z3.InRe(mid, R1), _ctx_ok(lb, la, pre, post)]
    if known:
        asr.append(z3.Not(z3.InRe(s, region)))
    obs.append(_ob("%s.regex1.outside-brackets%s" % (tag, "[outside known region]" if known else ""), "regex1", asr, {"s": s},
                   "on text outside brackets %r never fires%s" % (lit, " unless an aromatic-bond ':' stands directly before a ring-closure digit (known finding)" if known else ""), tier,
                   replay=lambda m: {"reproduced": real.sub(repl, m["s"]) != m["s"], "outcome": "sub changes %r into %r" % (m["s"], real.sub(repl, m["s"]))}))
    return obs


def _queries_regex2(lit, repl, tier):
    obs = []
    R2 = S.regex_to_z3(lit)
    (iso, sym, chi, hc, chg, cls), G = grammar()
    mv = {"iso": iso, "sym": sym, "chi": chi, "hc": hc, "chg": chg}
    real = re.compile(lit)
    T = z3.Concat(z3.StringVal("["), iso, sym, chi, hc, chg, z3.StringVal("]"))

    def rep_unbracket(m):
        tok = _token(m, with_cls=False)
        got = real.sub(repl, tok)
        plain = m.get("iso", "") == "" and m.get("chi", "") == "" and m.get("chg", "") == "" and m.get("sym") in ORGANIC
        want = m.get("sym") if plain else tok
        return {"reproduced": got != want and got != tok, "outcome": "sub on %r gives %r (expected %r or unchanged)" % (tok, got, want)}

    if repl != "\\g<atom>":
        obs.append({"name": "regex2.replacement", "engine": "smt", "group": "regex2", "status": "inconclusive", "queries": 0,
                    "detail": "replacement %r is not the atom group: outside the encoded shape" % repl})
        return obs
    s = z3.String("s")
    inner = z3.SubString(s, 1, z3.Length(s) - 2)
    obs.append(_ob("regex2.bracket-to-bracket", "regex2",
                   [z3.InRe(s, R2), z3.Or(z3.Not(z3.PrefixOf(z3.StringVal("["), s)), z3.Not(z3.SuffixOf(z3.StringVal("]"), s)),
                                          z3.Contains(inner, z3.StringVal("[")), z3.Contains(inner, z3.StringVal("]")))], {"s": s},
                   "every match of regex 2 is exactly one bracket token '[...]' (so the substitution is all-or-nothing per token and never fires outside brackets)", tier,
                   replay=lambda m: {"reproduced": real.fullmatch(m["s"]) is not None, "outcome": "fullmatch(%r)" % m["s"]}))
    obs.append(_ob("regex2.only-plain-atoms", "regex2", G + [z3.InRe(T, R2), z3.Or(iso != z3.StringVal(""), chi != z3.StringVal(""), chg != z3.StringVal(""))], mv,
                   "a bracket atom with isotope, chirality or charge is never unbracketed", tier, replay=rep_unbracket))
    obs.append(_ob("regex2.only-organic-subset", "regex2", G + [z3.InRe(T, R2), z3.Not(z3.InRe(sym, S.any_of(ORGANIC)))], mv,
                   "only the ten organic-subset symbols are unbracketed (no two-letter element is split by the {1,2} repetition, no aromatic or metal symbol)", tier, replay=rep_unbracket))
    try:
        Gr, Rest = _split_group(lit, "atom")
        g = z3.String("g")
        r = z3.String("r")
        obs.append(_ob("regex2.group-is-symbol", "regex2",
                       G + [iso == z3.StringVal(""), chi == z3.StringVal(""), chg == z3.StringVal(""), z3.InRe(g, Gr), z3.InRe(r, Rest),
                            z3.Concat(sym, hc) == z3.Concat(g, r), g != sym], dict(mv, g=g, r=r),
                       "the text put back by \\g<atom> is exactly the element symbol", tier, replay=rep_unbracket))
    except S.Untranslatable as e:
        obs.append({"name": "regex2.group-is-symbol", "engine": "smt", "group": "regex2", "status": "inconclusive", "queries": 0, "detail": str(e)})
    # completeness direction (information the property needs for 'no map number survives' is regex1; this one is
    # about behaviour preservation): every plain organic token IS matched -- not required by the property, recorded only.
    # ---- semantic step: valence
    V = _valences()
    h = z3.Int("h")
    b = z3.Int("b")
    hmap = [z3.And(hc == z3.StringVal(""), h == 0), z3.And(hc == z3.StringVal("H"), h == 1)] + [z3.And(hc == z3.StringVal("H%d" % d), h == d) for d in range(10)]
    known = kf.active(KF_HYDRIDE)
    for X in ORGANIC:
        vs = V[X]
        closed = z3.Or(*[h + b == v for v in vs]) if vs else z3.BoolVal(False)
        # implicit H of the unbracketed atom: smallest allowed valence >= b, minus b; 0 if none
        imp = z3.IntVal(0)
        for v in sorted(vs, reverse=True):
            imp = z3.If(b <= v, v - b, imp)
        asr = G + [iso == z3.StringVal(""), chi == z3.StringVal(""), chg == z3.StringVal(""), sym == z3.StringVal(X), z3.InRe(T, R2),
                   z3.Or(*hmap), b >= 0, b <= 8, closed, imp != h]
        if known and len(vs) > 1:
            asr.append(z3.Not(z3.And(h >= 1, h + b > vs[0])))
        name = "regex2.valence[%s]%s" % (X, "[outside known region]" if known and len(vs) > 1 else "")

        def rep_val(m, X=X):
            return _replay_valence(X, m["h"], m["b"])

        obs.append(_ob(name, "valence", asr, dict(mv, h=h, b=b),
                       "closed-shell [%sHn] with bond-order sum b keeps its hydrogen count when unbracketed (valence list %r)" % (X, vs), tier, replay=rep_val))
    return obs


def _replay_valence(X, h, b):
    """[XHh] carrying b single bonds to methyl groups: real function + real RDKit."""
    from rdkit import Chem, RDLogger

    RDLogger.DisableLog("rdApp.*")
    tok = "[%s%s]" % (X, "" if h == 0 else ("H" if h == 1 else "H%d" % h))
    smi = tok + "".join("(C)" for _ in range(max(0, b - 1))) + ("C" if b >= 1 else "")
    out = cu.remove_atom_mapping(smi)
    m0 = Chem.MolFromSmiles(smi)
    m1 = Chem.MolFromSmiles(out)
    if m0 is None:
        return {"reproduced": False, "outcome": "%r does not parse (not closed-shell for RDKit)" % smi}
    if m1 is None:
        return {"reproduced": True, "outcome": "%r -> %r which does not parse" % (smi, out)}
    c0 = Chem.MolToSmiles(m0)
    c1 = Chem.MolToSmiles(m1)
    f0 = sum(a.GetTotalNumHs() for a in m0.GetAtoms())
    f1 = sum(a.GetTotalNumHs() for a in m1.GetAtoms())
    return {"reproduced": f0 != f1, "outcome": "%r (canonical %s, %d H) -> %r (canonical %s, %d H)" % (smi, c0, f0, out, c1, f1)}


def _tables(tier):
    """No string the pipeline can append carries a map number (finite table scan, not a solver result)."""
    import json
    import gzip

    from vf.world import pipe as _p

    pat = re.compile(extract(cu.remove_atom_mapping)[0][0])
    strings = set(["O", "[H]", "[O]", "[H][H]", "OO"])
    for r in _p.shipped_rules():
        strings.add(r["smiles"])
    try:
        with gzip.open("/repo/Data/Rules/automated_rules.json.gz", "rt") as f:
            for r in json.load(f):
                strings.add(r["smiles"])
    except Exception:
        try:
            for r in json.load(open("/repo/Data/Rules/automated_rules.json.gz")):
                strings.add(r["smiles"])
        except Exception:
            pass
    from synrbl.SynChemImputer import curate_oxidation as _co

    for grp in _co.reaction_templates.values():
        for t in grp.values():
            for v in (t.values() if "reactants" not in t else [t]):
                strings.update(v["reactants"])
                strings.update(v["products"])
    bad = sorted(s for s in strings if pat.search(s))
    return {"name": "appended-compounds.no-map-number", "engine": "table", "group": "tables", "queries": len(strings),
            "status": "violation" if bad else "discharged",
            "detail": "%d rule-database / template / placeholder compounds scanned for a class field; offenders: %r" % (len(strings), bad[:5]),
            "replay_payload": {"query": "table", "bad": bad}}


def extra(tier):
    obs = []
    try:
        pairs = extract(cu.remove_atom_mapping)
        if len(pairs) != 2:
            raise S.Untranslatable("remove_atom_mapping has %d substitutions, expected 2" % len(pairs))
        obs += _queries_regex1(cu.remove_atom_mapping, "cu", pairs[0][0], pairs[0][1], tier)
        obs += _queries_regex2(pairs[1][0], pairs[1][1], tier)
        pr = extract(RuleConstraint.remove_atom_mapping)
        if len(pr) != 1:
            raise S.Untranslatable("RuleConstraint.remove_atom_mapping has %d substitutions, expected 1" % len(pr))
        obs += _queries_regex1(RuleConstraint.remove_atom_mapping, "rc", pr[0][0], pr[0][1], tier)
        obs.append(_tables(tier))
    except S.Untranslatable as e:
        obs.append({"name": "translate", "engine": "smt", "group": "translate", "status": "inconclusive", "queries": 0,
                    "detail": "source outside the encodable shape: %s" % e})
    from vf.harness import pipecore as pc

    return {"obligations": obs, "findings": pc.witness_findings("C15")}


def replay(data):
    """Re-run the queries on the current tree (known-finding regions switched off, so that a recorded model inside a
    region is found again); the violation reproduces iff the same obligation is violated again."""
    import os

    os.environ["VERIF_KF_IGNORE"] = ",".join([KF_HYDRIDE, KF_AROM])
    base = (data.get("name") or "").split("[outside known region]")[0]
    for ob in extra("quick")["obligations"]:
        if ob["name"].split("[outside known region]")[0] == base:
            return {"reproduced": ob["status"] == "violation", "detail": ob.get("detail")}
    return {"reproduced": False, "detail": "obligation %r no longer exists" % base}
