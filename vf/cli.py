"""bin/check <ID> [--tier quick|thorough] [--replay file]

Exit codes: 0 every explored obligation held (known findings printed);
1 VIOLATION; 3 harness error (non-replaying counterexample, vacuous twin,
missing patch point).
"""
from __future__ import annotations

import argparse
import importlib
import json
import os
import sys
import time
import traceback

from vf import engine_xh, kf
from vf.engine_xh import Part

ROOT = os.path.dirname(os.path.dirname(os.path.abspath(__file__)))
WORK = os.path.join(ROOT, ".work")
REPLAYS = os.environ.get("VERIF_REPLAY_DIR") or os.path.join(WORK, "replays")


def _write_replay(pid, n, payload):
    os.makedirs(REPLAYS, exist_ok=True)
    path = os.path.join(REPLAYS, "%s-%03d.json" % (pid, n))
    with open(path, "w") as f:
        json.dump(payload, f, indent=1, default=str)
    return path


def do_replay(path):
    data = json.load(open(path))
    pid = data["property"]
    if data.get("engine", "xh") == "xh":
        part = Part(harness=data["harness"], params=data["params"], name=data.get("name", ""))
        out = engine_xh.replay_part(part, data["cex"])
    elif data.get("engine") == "witness":
        from vf import witness

        out = witness.run_for_id(data["finding"]["id"])
    else:
        mod = importlib.import_module("vf.harness." + pid)
        out = mod.replay(data)
    print(json.dumps(out, indent=1, default=str))
    if out.get("reproduced"):
        print("VIOLATION property=%s replay=%s" % (pid, path))
        return 1
    return 0


def main(argv=None):
    ap = argparse.ArgumentParser()
    ap.add_argument("pid")
    ap.add_argument("--tier", default=os.environ.get("VERIF_TIER") or "quick")
    ap.add_argument("--replay")
    ap.add_argument("--only", help="substring filter on partition names (debugging)")
    ap.add_argument("--jobs", type=int, default=0)
    ap.add_argument("--cap", type=float, default=0.0, help="cap per-partition timeouts (debugging)")
    args = ap.parse_args(argv)
    if args.replay:
        return do_replay(args.replay)
    pid = args.pid
    tier = args.tier if args.tier in ("quick", "thorough") else "quick"
    seed = int(os.environ.get("VERIF_SEED", "0") or 0)
    t0 = time.time()
    import logging

    logging.disable(logging.CRITICAL)

    try:
        mod = importlib.import_module("vf.harness." + pid)
    except Exception:
        traceback.print_exc()
        print("HARNESS-ERROR property=%s cannot import harness" % pid)
        return 3

    obligations = []  # dicts
    violations = []
    harness_errors = []
    inconclusive = []
    known_lines = []
    samples = []
    total_paths = 0
    solver_s = 0.0
    nrep = 0

    # ---- E1 partitions
    try:
        parts = mod.plan(tier) if hasattr(mod, "plan") else []
    except Exception:
        traceback.print_exc()
        print("HARNESS-ERROR property=%s plan() failed (patch point missing?)" % pid)
        return 3
    if args.only:
        parts = [p for p in parts if args.only in p.name]
    if args.cap:
        for p in parts:
            p.timeout = min(p.timeout, args.cap)

    done = [0]

    def progress(r):
        done[0] += 1
        if r.status != "confirmed" and not (r.kind == "twin" and r.status == "cex"):
            sys.stderr.write("[%d/%d] %s %s %s %.1fs %s\n" % (done[0], len(parts), r.kind, r.name, r.status, r.wall_s, r.message[:200]))
            sys.stderr.flush()

    wit = None
    if hasattr(mod, "extra") and not args.only:
        try:
            from vf import witness

            wit = witness.start_for(pid)  # real-code witnesses of listed findings run alongside the partitions
        except Exception:
            wit = None
    results = engine_xh.run_parts(parts, jobs=args.jobs or None, progress=progress)
    for part, r in zip(parts, results):
        total_paths += r.paths
        solver_s += r.cpu_s
        ob = {
            "name": r.name,
            "group": r.group,
            "engine": "xh",
            "kind": r.kind,
            "harness": r.harness,
            "params": r.params,
            "paths": r.paths,
            "cpu_s": r.cpu_s,
            "crosshair": r.state,
        }
        if r.kind == "twin":
            if r.status == "cex":
                ob["status"] = "discharged"
                ob["detail"] = "reachability twin refuted as required: " + r.message[:160]
            elif r.status == "confirmed":
                ob["status"] = "harness_error"
                ob["detail"] = "reachability twin CONFIRMED: harness is vacuous"
                harness_errors.append(ob)
            elif r.status == "error":
                ob["status"] = "harness_error"
                ob["detail"] = r.message + "\n" + r.traceback
                harness_errors.append(ob)
            else:
                ob["status"] = "inconclusive"
                ob["detail"] = r.message
                inconclusive.append(ob)
        else:
            if r.status == "confirmed":
                ob["status"] = "discharged"
                ob["detail"] = r.message
            elif r.status == "cex":
                ob["cex"] = r.cex
                ob["detail"] = r.message
                rep = None
                if r.cex is not None:
                    try:
                        rep = engine_xh.replay_part(part, r.cex)
                    except Exception as e:
                        rep = {"reproduced": False, "outcome": "replay crashed: %r" % e}
                ob["replay"] = rep
                if rep and rep.get("reproduced"):
                    nrep += 1
                    path = _write_replay(pid, nrep, {
                        "property": pid, "engine": "xh", "harness": r.harness, "params": r.params,
                        "name": r.name, "cex": r.cex, "message": r.message, "replay": rep,
                        "crosshair_traceback": r.traceback,
                    })
                    ob["status"] = "violation"
                    ob["replay_file"] = path
                    violations.append(ob)
                else:
                    ob["status"] = "harness_error"
                    ob["detail"] += " | counterexample did not replay: %s" % (rep,)
                    ob["traceback"] = r.traceback
                    harness_errors.append(ob)
            elif r.status == "error":
                ob["status"] = "harness_error"
                ob["detail"] = r.message + "\n" + r.traceback
                harness_errors.append(ob)
            else:
                ob["status"] = "inconclusive"
                ob["detail"] = r.message
                inconclusive.append(ob)
        obligations.append(ob)

    # ---- extra obligations (E2 queries, table checks, known-finding witnesses)
    findings = []
    if hasattr(mod, "extra"):
        try:
            ex = mod.extra(tier)
        except Exception:
            traceback.print_exc()
            print("HARNESS-ERROR property=%s extra() failed" % pid)
            return 3
        for ob in ex.get("obligations", []):
            ob.setdefault("engine", "smt")
            ob.setdefault("kind", "prop")
            solver_s += ob.get("solver_s", 0.0)
            if ob["status"] == "violation":
                nrep += 1
                payload = dict(ob.get("replay_payload") or {})
                payload.update({"property": pid, "engine": ob["engine"], "name": ob["name"]})
                ob["replay_file"] = _write_replay(pid, nrep, payload)
                violations.append(ob)
            elif ob["status"] == "harness_error":
                harness_errors.append(ob)
            elif ob["status"] == "inconclusive":
                inconclusive.append(ob)
            ob.pop("replay_payload", None)
            obligations.append(ob)
        findings = ex.get("findings", [])

    # ---- known findings
    for f in findings:
        # f: {id, reproduced: bool, what, witness}
        if not f.get("reproduced"):
            continue
        kind = kf.listed(f["id"])
        if kind == "known":
            known_lines.append("KNOWN-FINDING: property=%s %s" % (pid, kf.what(f["id"]) or f.get("what", f["id"])))
        else:
            nrep += 1
            path = _write_replay(pid, nrep, {"property": pid, "engine": "witness", "finding": f})
            violations.append({"name": "finding:" + f["id"], "status": "violation", "detail": f.get("what", ""), "replay_file": path})

    wall = round(time.time() - t0, 2)
    n_ob = len(obligations)
    n_dis = sum(1 for o in obligations if o["status"] == "discharged")

    # ---- evidence
    enc = []
    for q in getattr(mod, "ENCODES", []):
        try:
            obj = engine_xh.resolve(q)
            enc.append({"function": q, "source_sha256_16": engine_xh.source_hash(obj)})
        except Exception as e:
            enc.append({"function": q, "error": repr(e)})
    for o in obligations:
        if o["status"] == "discharged" and o.get("kind") != "twin" and len(samples) < 6:
            samples.append({k: o.get(k) for k in ("name", "engine", "params", "paths", "detail", "query") if o.get(k) is not None})
    for o in (violations + inconclusive + harness_errors)[:6]:
        samples.append({k: o.get(k) for k in ("name", "status", "params", "cex", "detail", "replay") if o.get(k) is not None})
    nontrivial = len({o["name"] for o in obligations if o["status"] == "discharged" and (o.get("paths", 0) > 1 or o.get("engine") != "xh")})
    evidence = {
        "property_id": pid,
        "tier": tier,
        "seed": seed,
        "level": "other",
        "coverage": {
            "explanation": getattr(mod, "EXPLANATION", "solver-based bounded checking of the real code (CrossHair+z3 symbolic execution; direct z3 queries generated from source)"),
            "obligations": n_ob,
            "discharged": n_dis,
            "inconclusive": len(inconclusive),
            "evaluations": int(total_paths + sum(o.get("queries", 0) for o in obligations)),
            "distinct_nontrivial": nontrivial,
            "rule": "an obligation is one partition (harness + concrete discrete parameters; all numeric inputs symbolic) explored to exhaustion by CrossHair, or one SMT query; non-trivial = discharged and explored >1 path (or is a solver query); evaluations = symbolic paths explored + solver queries",
            "samples": samples,
            "exhaustive": bool(n_ob and n_dis == n_ob),
            "functions_encoded": enc,
            "bounds": getattr(mod, "BOUNDS", []),
            "stubs": getattr(mod, "STUBS", []),
            "outside_claim": getattr(mod, "OUTSIDE", []),
            "paths_explored": total_paths,
            "solver_cpu_s": round(solver_s, 2),
            "groups": _group_summary(obligations),
            "slowest": sorted(((o.get("cpu_s", 0), o.get("paths", 0), o["name"]) for o in obligations), reverse=True)[:8],
            "known_findings_printed": known_lines,
            "inconclusive_names": [o["name"] for o in inconclusive][:50],
            "checker_cmd": "bin/check %s --tier %s" % (pid, tier),
            "trusted_base": ["CPython 3.12", "crosshair-tool 0.0.110", "z3 5.1.0", "stubs listed under 'stubs'"],
        },
        "assumptions": getattr(mod, "ASSUMPTIONS", []),
        "wall_s": wall,
        "violations": len(violations),
    }
    evdir = os.environ.get("VERIF_EVIDENCE_DIR") or os.path.join(ROOT, "evidence")
    os.makedirs(evdir, exist_ok=True)
    with open(os.path.join(evdir, pid + ".json"), "w") as f:
        json.dump(evidence, f, indent=1, default=str)

    # ---- report
    print("property=%s tier=%s obligations=%d discharged=%d inconclusive=%d violations=%d harness_errors=%d paths=%d wall=%.1fs" % (
        pid, tier, n_ob, n_dis, len(inconclusive), len(violations), len(harness_errors), total_paths, wall))
    for line in known_lines:
        print(line)
    for o in inconclusive[:20]:
        print("INCONCLUSIVE %s: %s" % (o["name"], str(o.get("detail", ""))[:200]))
    for o in harness_errors[:20]:
        print("HARNESS-ERROR %s: %s" % (o["name"], str(o.get("detail", ""))[:1500]))
    for o in violations:
        print("  violation detail: %s: %s %s" % (o["name"], str(o.get("detail", ""))[:300], o.get("cex", "")))
        print("VIOLATION property=%s replay=%s" % (pid, o["replay_file"]))
    if violations:
        return 1
    if harness_errors:
        return 3
    return 0


def _group_summary(obligations):
    g = {}
    for o in obligations:
        k = o.get("group") or o.get("name")
        d = g.setdefault(k, {"obligations": 0, "discharged": 0, "paths": 0, "cpu_s": 0.0})
        d["obligations"] += 1
        d["discharged"] += 1 if o["status"] == "discharged" else 0
        d["paths"] += o.get("paths", 0)
        d["cpu_s"] = round(d["cpu_s"] + o.get("cpu_s", o.get("solver_s", 0.0)), 2)
    return g


if __name__ == "__main__":
    sys.exit(main())
