"""E1 -- symbolic execution of the real Python with CrossHair + z3.

A *partition* names a harness function (module:function, a PEP316 docstring
carries the bounds as ``pre:`` lines and the property as ``post: _``) plus a
JSON-able parameter dict that is bound to ``module.PART`` before the analysis.
Partitions are run on a process pool; the verdict table is DESIGN.md 2.1:

    CONFIRMED                         -> "confirmed"   (obligation discharged)
    POST_FAIL / EXEC_ERR / POST_ERR   -> "cex"         (candidate, to be replayed)
    anything else                     -> "inconclusive"

A partition of kind "twin" is a reachability twin: it must come back "cex".
"""
from __future__ import annotations

import ast
import collections
import hashlib
import importlib
import inspect
import multiprocessing as mp
import os
import re
import sys
import time
import traceback
from dataclasses import dataclass, field, asdict
from typing import Any, Dict, List, Optional


@dataclass
class Part:
    harness: str  # "vf.harness.C07:h_compare"
    params: Dict[str, Any] = field(default_factory=dict)
    name: str = ""
    kind: str = "prop"  # "prop" | "twin"
    timeout: float = 120.0  # per-condition CPU seconds
    path_timeout: float = 30.0
    group: str = ""  # obligation family (for reporting)


@dataclass
class PartResult:
    name: str
    harness: str
    params: Dict[str, Any]
    kind: str
    group: str
    status: str  # confirmed | cex | inconclusive | error
    message: str = ""
    cex: Optional[Dict[str, Any]] = None
    paths: int = 0
    wall_s: float = 0.0
    cpu_s: float = 0.0
    state: str = ""
    traceback: str = ""


def _parse_cex(message: str) -> Optional[Dict[str, Any]]:
    """'false when calling h(a=1, b=-2) (which returns False)' -> {'a':1,'b':-2}"""
    m = re.search(r"when calling (\w+\(.*)$", message, re.S)
    if not m:
        return None
    text = m.group(1)
    # cut a trailing " (which returns ...)" or " with ..." by finding the
    # matching close paren of the call
    depth = 0
    end = None
    in_str = None
    i = 0
    while i < len(text):
        c = text[i]
        if in_str:
            if c == "\\":
                i += 2
                continue
            if c == in_str:
                in_str = None
        elif c in "\"'":
            in_str = c
        elif c in "([{":
            depth += 1
        elif c in ")]}":
            depth -= 1
            if depth == 0:
                end = i + 1
                break
        i += 1
    if end is None:
        return None
    call = text[:end]
    try:
        node = ast.parse(call, mode="eval").body
        if not isinstance(node, ast.Call):
            return None
        out = {}
        for kw in node.keywords:
            out[kw.arg] = _literal(kw.value)
        for idx, a in enumerate(node.args):
            out["_pos%d" % idx] = _literal(a)
        return out
    except Exception:
        return None


def _literal(node):
    try:
        return ast.literal_eval(node)
    except Exception:
        # float('nan') / float('inf') etc.
        src = ast.unparse(node)
        try:
            return eval(src, {"float": float, "nan": float("nan"), "inf": float("inf")})
        except Exception:
            return src


_WORKER_READY = False


def _worker_init():
    global _WORKER_READY
    import logging

    logging.disable(logging.CRITICAL)
    os.environ.setdefault("PYTHONHASHSEED", "0")
    try:  # die with the parent: a killed check must not leave workers burning CPU
        import ctypes
        import signal

        ctypes.CDLL("libc.so.6", use_errno=True).prctl(1, signal.SIGKILL)  # PR_SET_PDEATHSIG
    except Exception:
        pass
    _WORKER_READY = True


def run_part(part: Part) -> PartResult:
    """Run one partition in this process."""
    import crosshair.core_and_libs  # noqa: registers opcode patches
    from crosshair.core import analyze_function, run_checkables
    from crosshair.options import AnalysisOptionSet
    from crosshair.statespace import MessageType

    t0 = time.time()
    c0 = time.process_time()
    res = PartResult(
        name=part.name or part.harness,
        harness=part.harness,
        params=part.params,
        kind=part.kind,
        group=part.group,
        status="error",
    )
    try:
        modname, fname = part.harness.split(":")
        mod = importlib.import_module(modname)
        mod.PART = dict(part.params)
        if hasattr(mod, "setup_part"):
            mod.setup_part(mod.PART)
        fn = getattr(mod, fname)
        stats = collections.Counter()
        opts = AnalysisOptionSet(
            per_condition_timeout=part.timeout,
            per_path_timeout=part.path_timeout,
            max_iterations=sys.maxsize,
            max_uninteresting_iterations=sys.maxsize,
            report_all=True,
            stats=stats,
        )
        checkables = analyze_function(fn, opts)
        if not checkables:
            res.status = "error"
            res.message = "no conditions found on harness"
            return res
        msgs = []
        for c in checkables:
            msgs.extend(c.analyze())
        res.paths = int(stats.get("num_paths", 0))
        worst = None
        for m in msgs:
            if m.state in (MessageType.POST_FAIL, MessageType.EXEC_ERR, MessageType.POST_ERR):
                worst = m
                break
        if worst is not None and "StubMissing" in (worst.message or ""):
            res.status = "error"
            res.state = worst.state.name
            res.message = "the code under analysis uses an RDKit API the stub world does not model (harness limit, not a violation): " + worst.message[:300]
        elif worst is not None:
            res.status = "cex"
            res.state = worst.state.name
            res.message = worst.message
            res.traceback = (worst.traceback or "")[-2000:]
            res.cex = _parse_cex(worst.message)
        elif msgs and all(m.state == MessageType.CONFIRMED for m in msgs):
            res.status = "confirmed"
            res.state = "CONFIRMED"
            res.message = msgs[0].message
        else:
            res.status = "inconclusive"
            res.state = ",".join(m.state.name for m in msgs) or "NONE"
            res.message = "; ".join(m.message for m in msgs)[:500]
    except BaseException as e:  # noqa
        res.status = "error"
        res.message = "%s: %s" % (type(e).__name__, e)
        res.traceback = traceback.format_exc()[-3000:]
    finally:
        res.wall_s = round(time.time() - t0, 3)
        res.cpu_s = round(time.process_time() - c0, 3)
    return res


def _run_part_safe(part: Part) -> PartResult:
    return run_part(part)


def run_parts(parts: List[Part], jobs: Optional[int] = None, progress=None) -> List[PartResult]:
    """Run partitions on a process pool (fresh 'spawn' workers, many partitions each)."""
    if not parts:
        return []
    jobs = jobs or int(os.environ.get("VERIF_JOBS", "0")) or min(16, os.cpu_count() or 4)
    jobs = max(1, min(jobs, len(parts)))
    # longest first for better packing
    order = sorted(range(len(parts)), key=lambda i: -parts[i].timeout)
    results: List[Optional[PartResult]] = [None] * len(parts)
    if jobs == 1:
        _worker_init()
        for i in order:
            results[i] = run_part(parts[i])
            if progress:
                progress(results[i])
        return results  # type: ignore
    import concurrent.futures as cf

    ctx = mp.get_context("spawn")
    # ProcessPoolExecutor (not mp.Pool): a worker that dies (OOM, crash in a C extension) raises
    # BrokenProcessPool instead of hanging the run; the partitions it took with it are reported as errors.
    with cf.ProcessPoolExecutor(jobs, mp_context=ctx, initializer=_worker_init) as ex:
        futs = {ex.submit(_indexed, (i, parts[i])): i for i in order}
        for fut in cf.as_completed(futs):
            i = futs[fut]
            try:
                _, r = fut.result()
            except BaseException as e:  # noqa
                p = parts[i]
                r = PartResult(name=p.name or p.harness, harness=p.harness, params=p.params, kind=p.kind, group=p.group,
                               status="error", message="worker failed: %s: %s" % (type(e).__name__, e))
            results[i] = r
            if progress:
                progress(r)
    return results  # type: ignore


def _indexed(arg):
    i, part = arg
    return i, run_part(part)


def replay_part(part: Part, cex: Dict[str, Any]) -> Dict[str, Any]:
    """Level-1 replay: call the harness concretely (no CrossHair) in this process.

    Returns {"reproduced": bool, "outcome": str}.  The harness returns the
    property as a bool; False or an exception means the violation reproduces.
    Harnesses may return None for "precondition not met" (ignored path).
    """
    modname, fname = part.harness.split(":")
    mod = importlib.import_module(modname)
    mod.PART = dict(part.params)
    if hasattr(mod, "setup_part"):
        mod.setup_part(mod.PART)
    fn = getattr(mod, fname)
    sig = inspect.signature(fn)
    names = list(sig.parameters)
    kwargs = {}
    for k, v in cex.items():
        if k.startswith("_pos"):
            kwargs[names[int(k[4:])]] = v
        else:
            kwargs[k] = v
    # check docstring preconditions concretely
    doc = inspect.getdoc(fn) or ""
    env = dict(mod.__dict__)
    try:
        bound = sig.bind(**kwargs)
    except TypeError as e:
        return {"reproduced": False, "outcome": "bind error: %s" % e}
    env.update(bound.arguments)
    for line in doc.splitlines():
        line = line.strip()
        if line.startswith("pre:"):
            try:
                if not eval(line[4:].strip(), env):
                    return {"reproduced": False, "outcome": "precondition false: " + line}
            except Exception as e:
                return {"reproduced": False, "outcome": "precondition error: %r" % e}
    try:
        out = fn(**kwargs)
    except BaseException as e:  # noqa
        if type(e).__name__ == "StubMissing":
            return {"reproduced": False, "outcome": "stub world does not model this API: %s" % e}
        if not isinstance(e, Exception):
            raise
        return {
            "reproduced": True,
            "outcome": "raised %s: %s" % (type(e).__name__, e),
            "traceback": traceback.format_exc()[-2000:],
        }
    if out is False:
        return {"reproduced": True, "outcome": "returned False"}
    return {"reproduced": False, "outcome": "returned %r" % (out,)}


def source_hash(obj) -> str:
    try:
        src = inspect.getsource(obj)
    except Exception:
        return "unavailable"
    return hashlib.sha256(src.encode()).hexdigest()[:16]


def resolve(qual: str):
    """'synrbl.x.y:Class.meth' -> object"""
    modname, _, attr = qual.partition(":")
    obj = importlib.import_module(modname)
    for a in attr.split("."):
        if a:
            # handle name-mangled privates
            obj = getattr(obj, a)
    return obj
