"""C01 -- a reaction reported as solved is balanced in every element and in charge (pipeline harness)."""
from __future__ import annotations

from vf import kf
from vf.engine_xh import Part
from vf.harness import pipecore as pc
from vf.world import pipe
from vf.world.pipe import W

PART = {}
H = "vf.harness.C01:"
KF_CURATION = "C01-nonunit-reagent-template"

ENCODES = pc.ENCODES_PIPE
STUBS = pc.STUBS_PIPE
ASSUMPTIONS = STUBS
EXPLANATION = (
    "The real Balancer.__run_pipeline (preprocess, three validators, rule-based stage with the real matcher/imputer/"
    "constraint, MCSSearch.find, MCSBasedMethod.run/impute_reaction, reagent post-processing with the real curation "
    "code and shipped templates, second rule-based run, final validation, confidence filter) is executed symbolically "
    "with CrossHair+z3 on an abstract-chemistry world: molecules are tokens whose element counts and charges are "
    "solver variables, and every environment outcome (MCS found/failed, merge result composition, functional group, "
    "confidence, threshold) is a solver variable too. Oracle: every returned row with solved=True carries a reaction "
    "that parses in the world and whose two sides have equal true composition and charge (computed by the harness "
    "from the world, not by the code under test). Each partition (reaction shape) is explored to path exhaustion."
)
BOUNDS = pc.BOUNDS_PIPE
OUTSIDE = pc.OUTSIDE_PIPE


def h_solved_balanced(jC: int, jH: int, jO: int, jq: int, qC: int, qH: int, qO: int, qq: int,
                      wC: int, wH: int, wO: int, wq: int, xC: int, xH: int, xO: int, xq: int,
                      jjC: int, jjH: int, jjO: int, jjq: int, wwC: int, wwH: int, wwO: int, wwq: int,
                      m1: int, m2: int, f1: int, f2: int, c1: int, c2: int, thr: int) -> bool:
    """
    post: _
    """
    a = dict(locals())
    r = pc.explore(PART, a, thr=thr if PART.get("sym_thr") else None)
    if r is None:
        return True
    out, stats = r
    tw = PART.get("twin")
    known = pc.curated_ids(nonunit_only=True) if kf.active(KF_CURATION) else {}
    for row in out:
        if row["solved"]:
            if tw == "any_solved":
                return False
            if tw == "rule" and row.get("solved_by") == "rule-based":
                return False
            if tw == "mcs" and row.get("solved_by") == "mcs-based":
                return False
            if tw == "input" and row.get("solved_by") == "input-balanced":
                return False
            if tw == "curated" and row["id"] in pc.curated_ids():
                return False
            if row["id"] in known:
                # known finding: a reagent template that is balanced only with stoichiometric coefficients
                # overwrote the row.  Specified deviation: the reaction that was validated (the one handed
                # to post-processing) is balanced; the final text is the curated one (+ later completions).
                parses, bal = pipe.truly_balanced(known[row["id"]]["reaction"])
            else:
                parses, bal = pipe.truly_balanced(row["reaction"])
            if not parses or not bal:
                return False
    return True


def plan(tier):
    P = []
    for name, params, kind in pc.partitions(tier, "C01"):
        P.append(Part(H + "h_solved_balanced", params, name, kind=kind, group="pipeline", timeout=1500, path_timeout=120))
        if tier == "thorough" and "|m=4,jq=0,qq=0]" in name:
            p2 = dict(params, sym_thr=True)
            P.append(Part(H + "h_solved_balanced", p2, name.replace("]", ",thr]"), kind=kind, group="pipeline-threshold", timeout=1500, path_timeout=120))
    for tw in ("any_solved", "rule", "mcs", "input", "curated"):
        P.append(Part(H + "h_solved_balanced", {"shape": ["j>>q"], "E": ["C", "H"], "K": 2, "twin": tw, "fix": {"m1": 4 if tw == "mcs" else 0, "jq": 0, "qq": 0}}, "pipe.twin[%s]" % tw, kind="twin", group="pipeline", timeout=600))
    return P


def extra(tier):
    return {"obligations": [], "findings": pc.witness_findings("C01")}
