"""C10 -- MCS search results are attributed to their reaction and the largest condition is retained
(selection and attribution only; containment of the substructure is RDKit's FindMCS and is outside)."""
from __future__ import annotations

import itertools

from vf.engine_xh import Part
from vf.world import pipe
from vf.world.pipe import W

import synrbl.mcs_search as _ms
from synrbl.SynMCSImputer.SubStructure.extract_common_mcs import ExtractMCS

PART = {}
H = "vf.harness.C10:"

ENCODES = [
    "synrbl.SynMCSImputer.SubStructure.extract_common_mcs:ExtractMCS.get_largest_condition",
    "synrbl.SynMCSImputer.SubStructure.extract_common_mcs:ExtractMCS.calculate_total_number_atoms_mcs_parallel",
    "synrbl.SynMCSImputer.SubStructure.extract_common_mcs:ExtractMCS.get_num_atoms",
    "synrbl.mcs_search:MCSSearch.find",
]
EXPLANATION = (
    "Selection: the real ExtractMCS.get_largest_condition runs on every table shape (3 conditions x n rows x 0..2 "
    "patterns per entry, enumerated as partitions) with the atom count of every pattern an unbounded solver integer "
    "(MolFromSmarts stub): each retained entry is the entry object of some condition at that row, its total is the "
    "maximum over the conditions, at most one entry per row in row order, and a row with a unique non-zero maximum is "
    "retained with exactly that entry. Attribution: the real MCSSearch.find runs on 4 rows with solver-chosen solved "
    "flags and search outcomes (search/graph stages stubbed by tagged results): the record attached to a reaction "
    "carries that reaction's id and was produced from its own search entry, including when entries of failed "
    "searches are skipped."
)
BOUNDS = [
    "selection: 3 conditions, n = 1 (all 27 shapes) and n = 2 (quick: 90 shapes, thorough: all 729), pattern atom counts >= 1 unbounded",
    "attribution: 4 rows, every subset solved beforehand, per unsolved row search outcome in {fails under all conditions, found}, atom counts of the three conditions symbolic",
]
STUBS = [
    "Chem.MolFromSmarts(...).GetNumAtoms() -> solver integer per pattern string ('' -> 0 atoms)",
    "ensemble_mcs / find_graph_dict -> tagged per-reaction results (the search itself is RDKit FindMCS: outside)",
    "joblib -> sequential shim",
]
OUTSIDE = ["that each reported substructure is contained in its molecule and that the molecule list is the carbon-richer side (RDKit FindMCS / MolToSmiles)", "ragged condition tables (ensemble_mcs always returns one entry per reaction and condition)"]
ASSUMPTIONS = STUBS


def _install():
    pipe.install()


def h_select(x0: int, x1: int, x2: int, x3: int, x4: int, x5: int, x6: int, x7: int, x8: int, x9: int, x10: int, x11: int) -> bool:
    """
    pre: all(v >= 1 for v in (x0, x1, x2, x3, x4, x5, x6, x7, x8, x9, x10, x11))
    post: _
    """
    _install()
    xs = [x0, x1, x2, x3, x4, x5, x6, x7, x8, x9, x10, x11]
    shape = PART["shape"]  # shape[c][r] = number of patterns
    n = len(shape[0])
    pipe.reset_world(["C"])
    atoms = {}
    conds = []
    totals = []
    k = 0
    for c in range(3):
        rows = []
        tot = []
        for r in range(n):
            pats = []
            t = 0
            for p in range(shape[c][r]):
                name = "c%dr%dp%d" % (c, r, p)
                atoms[name] = xs[k]
                t = t + xs[k]
                k += 1
                pats.append(name)
            rows.append({"id": str(r), "mcs_results": pats, "sorted_reactants": ["m"] * len(pats), "issue": "", "cond": c})
            tot.append(t)
        conds.append(rows)
        totals.append(tot)
    W.ghost["smarts_atoms"] = atoms
    W.ghost["smarts_atoms"][""] = 0
    res = ExtractMCS.get_largest_condition(*conds)
    if PART.get("twin"):
        return len(res) == 0
    seen_rows = []
    for e in res:
        r = int(e["id"])
        c = e["cond"]
        if conds[c][r] is not e:
            return False
        seen_rows.append(r)
        mx = totals[0][r]
        for cc in (1, 2):
            if totals[cc][r] > mx:
                mx = totals[cc][r]
        if totals[c][r] != mx:
            return False
    if seen_rows != sorted(set(seen_rows)):
        return False
    for r in range(n):
        mx = max(totals[0][r], totals[1][r], totals[2][r])
        winners = [c for c in range(3) if totals[c][r] == mx]
        if mx > 0 and len(winners) == 1 and r not in seen_rows:
            return False
    return True


def h_attr(s0: bool, s1: bool, s2: bool, s3: bool, f0: bool, f1: bool, f2: bool, f3: bool, n0: int, n1: int, n2: int) -> bool:
    """
    pre: n0 >= 1 and n1 >= 1 and n2 >= 1
    post: _
    """
    _install()
    pipe.reset_world(["C"])
    solved = [s0, s1, s2, s3]
    found = [f0, f1, f2, f3]
    W.ghost["smarts_atoms"] = {"s0": n0, "s1": n1, "s2": n2, "": 0}
    reactions = []
    for i in range(4):
        rx = "r%d" % i
        row = {"id": str(i), "reaction": rx, "input_reaction": rx, "solved": True if solved[i] else False}
        if solved[i]:
            row["solved_by"] = "rule-based"
        reactions.append(row)
        W.mcs[rx] = pipe.MCS_OK if found[i] else pipe.MCS_FAIL
    search = _ms.MCSSearch("id", n_jobs=1)
    out = search.find(reactions)
    if PART.get("twin"):
        return not any(r.get("mcs") for r in out)
    if out is not reactions or len(out) != 4:
        return False
    for i, r in enumerate(out):
        if r["id"] != str(i) or r["reaction"] != "r%d" % i:
            return False
        if solved[i]:
            if "mcs" in r or "issue" in r:
                return False
            continue
        if found[i]:
            m = r.get("mcs")
            if not m or m.get("_content") != "r%d" % i or m.get("id") != str(i):
                return False
            if r.get("issue") != "":
                return False
        else:
            # no search condition matched: no foreign record may be attached and the row carries a reason
            m = r.get("mcs")
            if m and (m.get("_content") != "r%d" % i or m.get("id") != str(i)):
                return False
            if not isinstance(r.get("issue"), str) or r.get("issue") == "":
                return False
    return True


def _shapes(n):
    return [tuple(tuple(s[c * n:(c + 1) * n]) for c in range(3)) for s in itertools.product(range(3), repeat=3 * n)]


def plan(tier):
    P = []
    for sh in _shapes(1):
        P.append(Part(H + "h_select", {"shape": [list(c) for c in sh]}, "select[n=1|%s]" % "".join(str(c[0]) for c in sh), group="select", timeout=300))
    sh2 = _shapes(2)
    if tier != "thorough":
        sh2 = [s for i, s in enumerate(sh2) if i % 8 == 3 or s in (((2, 2), (2, 2), (2, 2)), ((1, 1), (1, 1), (1, 1)), ((0, 1), (1, 0), (2, 2)))]
    for sh in sh2:
        P.append(Part(H + "h_select", {"shape": [list(c) for c in sh]}, "select[n=2|%s]" % "/".join("".join(map(str, c)) for c in sh), group="select", timeout=600))
    P.append(Part(H + "h_select", {"shape": [[1], [1], [1]], "twin": 1}, "select.twin", kind="twin", group="select", timeout=120))
    P.append(Part(H + "h_attr", {}, "attribution[4 rows]", group="attribution", timeout=1800))
    P.append(Part(H + "h_attr", {"twin": 1}, "attribution.twin", kind="twin", group="attribution", timeout=300))
    return P
