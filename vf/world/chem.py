"""Abstract chemistry: the RDKit entry points the analysed code calls are
replaced (in the harness process only) by stubs that return arbitrary values
constrained by the library's documented contract (DESIGN.md 2.2, 6)."""
from __future__ import annotations

import rdkit.Chem as _RealChem

REAL_CHEM = _RealChem
_pt = _RealChem.GetPeriodicTable()
# reference periodic table, read from RDKit once per run: index = atomic number
REF_SYMBOLS = ["*"] + [_pt.GetElementSymbol(z) for z in range(1, 119)]


class FakeAtom:
    __slots__ = ("z", "q", "idx", "sym")

    def __init__(self, z, q=0, idx=0, sym=None):
        self.z = z
        self.q = q
        self.idx = idx
        self.sym = sym

    def GetAtomicNum(self):
        return self.z

    def GetSymbol(self):
        if self.sym is not None:
            return self.sym
        return REF_SYMBOLS[self.z]

    def GetFormalCharge(self):
        return self.q

    def GetIdx(self):
        return self.idx


class FakeMol:
    """A molecule *with all hydrogens explicit* (contract of AddHs)."""

    def __init__(self, atoms, charge=0):
        self.atoms = list(atoms)
        self.charge = charge

    def GetAtoms(self):
        return list(self.atoms)

    def GetNumAtoms(self):
        return len(self.atoms)

    def __bool__(self):
        # RDKit Mol objects are truthy
        return True


class SingleMolChem:
    """Chem stand-in that parses every SMILES to one given FakeMol (or None)."""

    def __init__(self, mol):
        self.mol = mol

    def MolFromSmiles(self, smiles, *a, **k):
        return self.mol

    def AddHs(self, mol):
        return mol

    def GetFormalCharge(self, mol):
        return mol.charge
