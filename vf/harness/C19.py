"""C19 -- the rule database stays consistent under any sequence of edits.

One inductive step from an arbitrary database satisfying the invariant I
(DESIGN.md 3/C19) instead of histories; base case = the shipped files.
"""
from __future__ import annotations

import copy
import io
import contextlib

from vf.engine_xh import Part
from vf.world import chem as W
from vf import kf

import rdkit.Chem as RealChem
import synrbl.SynRuleImputer.rule_data_manager as _rdm
import synrbl.SynProcessor.rsmi_decomposer as _dec
from synrbl.SynRuleImputer.rule_data_manager import RuleImputeManager
from synrbl.SynProcessor.rsmi_decomposer import RSMIDecomposer

PART = {}
H = "vf.harness.C19:"

ENCODES = [
    "synrbl.SynRuleImputer.rule_data_manager:RuleImputeManager.add_entry",
    "synrbl.SynRuleImputer.rule_data_manager:RuleImputeManager.add_entries",
    "synrbl.SynRuleImputer.rule_data_manager:RuleImputeManager.remove_entry",
    "synrbl.SynRuleImputer.rule_data_manager:RuleImputeManager.is_valid_smiles",
    "synrbl.SynRuleImputer.rule_data_manager:RuleImputeManager.__init__",
]
EXPLANATION = (
    "Inductive step: the real RuleImputeManager.add_entry / add_entries / remove_entry run symbolically "
    "(CrossHair+z3) from an arbitrary pre-state database of <= 2 (thorough: 3) records satisfying the invariant "
    "(pairwise distinct formulas and SMILES, recorded composition = world composition with explicit Q), with "
    "solver-chosen operation arguments and symbolic hydrogen count / charge per SMILES token; post: invariant, "
    "rejected adds leave the database unchanged and are reported, remove deletes only the named record. "
    "Because the pre-state is arbitrary, one step covers histories of any length as long as the database list is the whole state of the manager; a 3-operation history kernel on one instance guards that assumption (state kept elsewhere on the object). Base case: the shipped files "
    "checked concretely against the invariant with real RDKit."
)
BOUNDS = [
    "pre-state: every database of <= 2 records (quick) / <= 3 (thorough) satisfying the invariant, up to renaming of formulas/tokens, every record order (enumerated as partitions); operation arguments range over formulas {F0..F3} x SMILES tokens {S0,S1,S2 valid, BAD invalid} as small symbolic indices",
    "per-token hydrogen count (>= 1) and charge: unbounded symbolic integers",
    "add_entries: lists of <= 2 entries",
    "history kernel: 3 operations on one manager instance from the empty database: add_entry(F0, S0|S2), then two solver-chosen add_entry/remove_entry calls over formulas {F0,F1} x tokens {S0,S2,invalid}, symbolic hydrogen counts and charges",
]
STUBS = [
    "Chem.MolFromSmiles in rule_data_manager -> None exactly for the invalid token",
    "RuleImputeManager.decompose -> the world composition {'X':1,'H':h,'Q':q if q != 0} of the token (decompose itself is C07)",
    "print -> swallowed",
]
OUTSIDE = ["canonical-SMILES identity of differently spelled duplicates (the manager compares strings; RDKit)", "the DataFrame constructor path of __init__"]
ASSUMPTIONS = STUBS

FORMULAS = ["F0", "F1", "F2", "F3"]
TOKENS = ["S0", "S1", "S2", "BAD"]


class _M:
    def __init__(self, s):
        self.s = s

    def __bool__(self):
        return True


class _Chem:
    """S1 is a non-canonical spelling (its canonical form 'S1c' is outside the alphabet); the others are canonical."""

    def MolFromSmiles(self, s, *a, **k):
        return None if s == "BAD" or s not in TOKENS else _M(s)

    def MolToSmiles(self, m, **k):
        return "S1c" if m.s == "S1" else m.s

    def CanonSmiles(self, s, *a, **k):
        return "S1c" if s == "S1" else s


_WORLD = {}


def _world_decompose(smiles):
    h, q = _WORLD[smiles]
    d = {"X": 1, "H": h}
    if q != 0:
        d["Q"] = q
    return d


def _true_comp(tok):
    d = _world_decompose(tok)
    d.setdefault("Q", 0)
    return d


def _inv(db):
    fs = [r["formula"] for r in db]
    ss = [r["smiles"] for r in db]
    if len(set(fs)) != len(fs) or len(set(ss)) != len(ss):
        return False
    for r in db:
        if r["smiles"] == "BAD" or r["smiles"] not in TOKENS:
            return False
        if "Q" not in r["Composition"] or r["Composition"] != _true_comp(r["smiles"]):
            return False
    return True


def _install(h0, h1, h2, q0, q1, q2):
    _rdm.Chem = _Chem()
    RuleImputeManager.decompose = staticmethod(_world_decompose)
    _WORLD.clear()
    _WORLD.update({"S0": (h0, q0), "S1": (h1, q1), "S2": (h2, q2)})


def h_step(
    af: int, as_: int, bf: int, bs: int, nb: int,
    h0: int, h1: int, h2: int, q0: int, q1: int, q2: int,
) -> bool:
    """
    pre: 0 <= af < 4 and 0 <= as_ < 4 and 0 <= bf < 4 and 0 <= bs < 4 and 1 <= nb <= 2
    pre: 1 <= h0 and 1 <= h1 and 1 <= h2
    pre: PART.get("nb") is None or nb == PART["nb"]
    pre: PART.get("af") is None or af == PART["af"]
    post: _
    """
    _install(h0, h1, h2, q0, q1, q2)
    op = PART["op"]
    recs = PART["pre"]  # concrete pre-state shape: list of (formula index, token index)
    db = [{"formula": FORMULAS[f], "smiles": TOKENS[s], "Composition": _true_comp(TOKENS[s])} for f, s in recs]
    if not _inv(db):
        return True  # pre-state outside the invariant: not a reachable state
    pre = copy.deepcopy(db)
    mgr = RuleImputeManager(db)
    sink = io.StringIO()
    tw = PART.get("twin")
    with contextlib.redirect_stdout(sink):
        if op == 0:  # add_entry
            F, S = FORMULAS[af], TOKENS[as_]
            dup_f = any(r["formula"] == F for r in pre)
            dup_s = any(r["smiles"] == S for r in pre)
            bad = S == "BAD"
            raised = False
            try:
                mgr.add_entry(F, S)
            except ValueError:
                raised = True
            if tw == "accept":
                return raised
            if tw == "reject":
                return not raised
            if dup_f or dup_s or bad:
                return raised and mgr.database == pre
            if raised:
                return False
            return mgr.database == pre + [{"formula": F, "smiles": S, "Composition": _true_comp(S)}] and _inv(mgr.database)
        if op == 1:  # add_entries
            ents = [{"formula": FORMULAS[af], "smiles": TOKENS[as_]}, {"formula": FORMULAS[bf], "smiles": TOKENS[bs]}][:nb]
            ents0 = copy.deepcopy(ents)
            rejected = mgr.add_entries(ents)
            exp_db = list(pre)
            exp_rej = []
            for e in ents0:
                if any(r["formula"] == e["formula"] for r in exp_db) or any(r["smiles"] == e["smiles"] for r in exp_db) or e["smiles"] == "BAD":
                    exp_rej.append(e)
                else:
                    exp_db.append({"formula": e["formula"], "smiles": e["smiles"], "Composition": _true_comp(e["smiles"])})
            if tw == "accept":
                return len(rejected) == len(ents0)
            if tw == "reject":
                return len(rejected) == 0
            return rejected == exp_rej and mgr.database == exp_db and _inv(mgr.database) and ents == ents0
        # remove_entry
        F = FORMULAS[af]
        mgr.remove_entry(F)
        exp_db = [r for r in pre if r["formula"] != F]
        if tw == "accept":
            return len(mgr.database) == len(pre)
        if tw == "reject":
            return len(mgr.database) != len(pre)
        return mgr.database == exp_db and _inv(mgr.database)


HIST_TOKENS = [0, 2, 3]  # S0, S2, BAD


def h_hist(
    a0: int, k1: int, f1: int, s1: int, k2: int, f2: int, s2: int,
    h0: int, h1: int, h2: int, q0: int, q1: int, q2: int,
) -> bool:
    """
    pre: 0 <= a0 < 2 and 0 <= k1 < 2 and 0 <= f1 < 2 and 0 <= s1 < 3 and 0 <= k2 < 2 and 0 <= f2 < 2 and 0 <= s2 < 3
    pre: 1 <= h0 and 1 <= h1 and 1 <= h2
    pre: PART.get("k1") is None or k1 == PART["k1"]
    pre: PART.get("k2") is None or k2 == PART["k2"]
    post: _
    """
    # Three operations on ONE manager instance, starting from the empty database: add_entry(F0, S0|S2), then two
    # solver-chosen add_entry / remove_entry calls.  The inductive step (h_step) is sound only while the manager's
    # state is its `database`; this kernel follows the same object through a history, so anything an operation
    # remembers elsewhere on the instance is exercised by the next one.
    _install(h0, h1, h2, q0, q1, q2)
    mgr = RuleImputeManager([])
    exp = []
    ops = [(0, 0, 0 if a0 == 0 else 1), (k1, f1, s1), (k2, f2, s2)]
    tw = PART.get("twin")
    nrej = 0
    sink = io.StringIO()
    with contextlib.redirect_stdout(sink):
        for kind, fi, si in ops:
            F, S = FORMULAS[fi], TOKENS[HIST_TOKENS[si]]
            if kind == 0:
                reject = any(r["formula"] == F for r in exp) or any(r["smiles"] == S for r in exp) or S == "BAD"
                raised = False
                try:
                    mgr.add_entry(F, S)
                except ValueError:
                    raised = True
                if raised != reject:
                    return False
                if reject:
                    nrej += 1
                else:
                    exp = exp + [{"formula": F, "smiles": S, "Composition": _true_comp(S)}]
            else:
                mgr.remove_entry(F)
                exp = [r for r in exp if r["formula"] != F]
            if mgr.database != exp or not _inv(mgr.database):
                return False
    if tw == "readd":
        # reachability: a formula is removed and added again with another SMILES
        return not (ops[1][0] == 1 and ops[1][1] == 0 and ops[2][0] == 0 and ops[2][1] == 0 and ops[2][2] != ops[0][2] and nrej == 0)
    return True


def _prestates(nmax):
    """All pre-state shapes up to renaming of formulas and of valid tokens (both are
    interchangeable: the per-token composition is symbolic) -- plus, on purpose, every
    order of the records, because add/remove scan the list."""
    import itertools

    out = [[]]
    for n in range(1, nmax + 1):
        base = [(i, i) for i in range(n)]
        for perm in itertools.permutations(base):
            out.append([list(x) for x in perm])
    return out


def plan(tier):
    nmax = 3 if tier == "thorough" else 2
    P = []
    for pre in _prestates(nmax):
        ps = "".join("(F%d,S%d)" % tuple(x) for x in pre) or "empty"
        for op, name in ((0, "add_entry"), (2, "remove_entry")):
            P.append(Part(H + "h_step", {"op": op, "pre": pre}, "step[%s,pre=%s]" % (name, ps), group="step", timeout=900))
        P.append(Part(H + "h_step", {"op": 1, "pre": pre, "nb": 1}, "step[add_entries/1,pre=%s]" % ps, group="step", timeout=900))
        for af in range(4):
            P.append(Part(H + "h_step", {"op": 1, "pre": pre, "nb": 2, "af": af}, "step[add_entries/2,first=F%d,pre=%s]" % (af, ps), group="step", timeout=900))
    for k1 in (0, 1):
        for k2 in (0, 1):
            P.append(Part(H + "h_hist", {"k1": k1, "k2": k2}, "history[add,%s,%s on one instance]" % (("add", "remove")[k1], ("add", "remove")[k2]), group="history", timeout=900))
    P.append(Part(H + "h_hist", {"k1": 1, "k2": 0, "twin": "readd"}, "history.twin[remove then re-add under the same formula]", kind="twin", group="history"))
    for op, name in ((0, "add_entry"), (1, "add_entries"), (2, "remove_entry")):
        for tw in ("accept", "reject"):
            P.append(Part(H + "h_step", {"op": op, "pre": [[0, 0]], "twin": tw}, "step.twin[%s,%s]" % (name, tw), kind="twin", group="step"))
    return P


def extra(tier):
    """Base case: the shipped databases against the invariant, with real RDKit."""
    from vf.harness.C08 import databases

    _dec.Chem = RealChem
    obs = []
    findings = []
    for name, recs in databases().items():
        seen_f = {}
        seen_s = {}
        dups = []
        badcomp = []
        for i, r in enumerate(recs):
            true = RSMIDecomposer.decompose(r["smiles"])
            true.setdefault("Q", 0)
            if RealChem.MolFromSmiles(r["smiles"]) is None or "Q" not in r["Composition"] or dict(r["Composition"]) != true:
                badcomp.append((i, r["smiles"]))
            if r["formula"] in seen_f:
                dups.append(("formula", r["formula"], seen_f[r["formula"]], i))
            if r["smiles"] in seen_s:
                dups.append(("smiles", r["smiles"], seen_s[r["smiles"]], i))
            seen_f.setdefault(r["formula"], i)
            seen_s.setdefault(r["smiles"], i)
        obs.append({"name": "base[%s].compositions" % name, "engine": "table", "group": "base", "queries": len(recs),
                    "status": "violation" if badcomp else "discharged",
                    "detail": "%d records: recorded composition (explicit Q) equals RDKit composition; mismatches %r" % (len(recs), badcomp),
                    "replay_payload": {"db": name, "bad": badcomp}})
        known = {"manager": [("formula", "Cl2", 1, 5), ("smiles", "ClCl", 1, 5), ("smiles", "N", 26, 31)]}.get(name, [])
        fid = "C19-shipped-%s-duplicates" % name
        listed_known = kf.active(fid)
        new = [d for d in dups if not (listed_known and d in known)]
        obs.append({"name": "base[%s].uniqueness" % name, "engine": "table", "group": "base", "queries": len(recs),
                    "status": "violation" if new else "discharged",
                    "detail": "duplicates beyond the listed known finding: %r (all duplicates: %r)" % (new, dups),
                    "replay_payload": {"db": name, "dups": new}})
        if any(d in known for d in dups) and known:
            findings.append({"id": fid, "reproduced": True, "what": "shipped %s database already violates uniqueness: %r" % (name, [d for d in dups if d in known]), "witness": dups})
    return {"obligations": obs, "findings": findings}


def replay(data):
    return {"reproduced": bool(data.get("bad") or data.get("dups"))}
