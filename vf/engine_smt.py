"""E2 -- direct z3 queries generated from the current source.

* ``regex_to_z3``: translate a Python regular expression (as parsed by Python's
  own ``re._parser``) into a z3 regular expression over strings.
* ``extract_*``: pull literals out of /repo's current source with ``ast``.
* ``Query``/``run_queries``: run unsat-queries, cross-check with cvc5 on demand.

Verdicts: unsat = holds for every string/value in the encoded domain;
sat = concrete model (to be replayed on the real code); unknown = inconclusive.
"""
from __future__ import annotations

import ast
import inspect
import re
import time
from typing import Any, Callable, Dict, List, Optional

import z3

try:  # Python 3.11+
    import re._parser as sre_parse
    import re._constants as sre_c
except Exception:  # pragma: no cover
    import sre_parse
    import sre_constants as sre_c


class Untranslatable(Exception):
    pass


def _cat(parts):
    parts = list(parts)
    if not parts:
        return z3.Re(z3.StringVal(""))
    if len(parts) == 1:
        return parts[0]
    return z3.Concat(*parts)


def _union(parts):
    parts = list(parts)
    if len(parts) == 1:
        return parts[0]
    return z3.Union(*parts)


ALL_CHAR = z3.AllChar(z3.ReSort(z3.StringSort()))


def _charset(items):
    pos = []
    negate = False
    for op, av in items:
        if op == sre_c.NEGATE:
            negate = True
        elif op == sre_c.LITERAL:
            pos.append(z3.Re(z3.StringVal(chr(av))))
        elif op == sre_c.RANGE:
            pos.append(z3.Range(chr(av[0]), chr(av[1])))
        elif op == sre_c.CATEGORY:
            pos.append(_category(av))
        else:
            raise Untranslatable("charset item %r" % (op,))
    r = _union(pos)
    if negate:
        r = z3.Intersect(ALL_CHAR, z3.Complement(r))
    return r


def _category(av):
    if av == sre_c.CATEGORY_DIGIT:
        return z3.Range("0", "9")
    if av == sre_c.CATEGORY_WORD:
        # ASCII reading of \w (inputs are SMILES: ASCII)
        return z3.Union(z3.Range("a", "z"), z3.Range("A", "Z"), z3.Range("0", "9"), z3.Re(z3.StringVal("_")))
    if av == sre_c.CATEGORY_SPACE:
        return z3.Union(*[z3.Re(z3.StringVal(c)) for c in " \t\n\r\f\v"])
    raise Untranslatable("category %r" % (av,))


def _tr(sub):
    out = []
    for op, av in sub:
        if op == sre_c.LITERAL:
            out.append(z3.Re(z3.StringVal(chr(av))))
        elif op == sre_c.NOT_LITERAL:
            out.append(z3.Intersect(ALL_CHAR, z3.Complement(z3.Re(z3.StringVal(chr(av))))))
        elif op == sre_c.ANY:
            out.append(z3.Intersect(ALL_CHAR, z3.Complement(z3.Re(z3.StringVal("\n")))))
        elif op == sre_c.IN:
            out.append(_charset(av))
        elif op == sre_c.BRANCH:
            out.append(_union([_tr(b) for b in av[1]]))
        elif op == sre_c.SUBPATTERN:
            out.append(_tr(av[3]))
        elif op in (sre_c.MAX_REPEAT, sre_c.MIN_REPEAT):
            lo, hi, body = av
            b = _tr(body)
            if hi == sre_c.MAXREPEAT:
                if lo == 0:
                    out.append(z3.Star(b))
                elif lo == 1:
                    out.append(z3.Plus(b))
                else:
                    out.append(z3.Concat(z3.Loop(b, lo, lo), z3.Star(b)))
            else:
                if lo == 0 and hi == 1:
                    out.append(z3.Option(b))
                else:
                    out.append(z3.Loop(b, lo, hi))
        elif op == sre_c.CATEGORY:
            out.append(_category(av))
        else:
            raise Untranslatable("regex op %r" % (op,))
    return _cat(out)


def regex_to_z3(pattern: str):
    """Language of full matches of `pattern` (anchors/lookarounds unsupported)."""
    return _tr(sre_parse.parse(pattern))


def group_regex_to_z3(pattern: str, group) -> Any:
    """z3 regex of the sub-pattern of the (named or numbered) group."""
    p = sre_parse.parse(pattern)
    gi = p.state.groupdict.get(group, group) if isinstance(group, str) else group

    def find(sub):
        for op, av in sub:
            if op == sre_c.SUBPATTERN:
                if av[0] == gi:
                    return av[3]
                r = find(av[3])
                if r is not None:
                    return r
            elif op == sre_c.BRANCH:
                for b in av[1]:
                    r = find(b)
                    if r is not None:
                        return r
            elif op in (sre_c.MAX_REPEAT, sre_c.MIN_REPEAT):
                r = find(av[2])
                if r is not None:
                    return r
        return None

    body = find(p)
    if body is None:
        raise Untranslatable("group %r not found" % (group,))
    return _tr(body)


def any_of(strings):
    return _union([z3.Re(z3.StringVal(s)) for s in strings])


def contains_match(rx):
    """Σ* rx Σ*  (what ``re.search`` accepts)."""
    full = z3.Full(z3.ReSort(z3.StringSort()))
    return z3.Concat(full, rx, full)


# ------------------------------------------------------------------ source extraction
def function_ast(fn) -> ast.FunctionDef:
    src = inspect.getsource(fn)
    import textwrap

    tree = ast.parse(textwrap.dedent(src))
    return tree.body[0]


def regex_literals(fn) -> List[str]:
    """string literals passed to re.compile(...) inside `fn`, in source order"""
    out = []
    for node in ast.walk(function_ast(fn)):
        if isinstance(node, ast.Call) and isinstance(node.func, ast.Attribute) and node.func.attr == "compile":
            if node.args and isinstance(node.args[0], ast.Constant) and isinstance(node.args[0].value, str):
                out.append((node.lineno, node.col_offset, node.args[0].value))
    out.sort()
    return [s for _, _, s in out]


# ------------------------------------------------------------------ query runner
class Query:
    def __init__(self, name: str, build: Callable[[], List[Any]], expect: str = "unsat", model_vars: Optional[Dict[str, Any]] = None, note: str = ""):
        self.name = name
        self.build = build
        self.expect = expect
        self.model_vars = model_vars or {}
        self.note = note


def solve(assertions, timeout_ms=60000, model_vars=None):
    s = z3.Solver()
    s.set("timeout", timeout_ms)
    for a in assertions:
        s.add(a)
    t0 = time.time()
    r = str(s.check())
    dt = time.time() - t0
    model = None
    if r == "sat":
        m = s.model()
        model = {}
        for k, v in (model_vars or {}).items():
            val = m.eval(v, model_completion=True)
            if z3.is_string_value(val):
                model[k] = val.as_string()
            elif z3.is_int_value(val):
                model[k] = val.as_long()
            elif z3.is_true(val) or z3.is_false(val):
                model[k] = z3.is_true(val)
            else:
                model[k] = str(val)
    return r, model, dt, s.to_smt2()


def cvc5_check(smt2: str, timeout_ms=60000) -> str:
    """Cross-check an SMT-LIB2 benchmark with the cvc5 wheel; returns sat/unsat/unknown/error:..."""
    try:
        import cvc5
    except Exception as e:  # pragma: no cover
        return "error: no cvc5 (%r)" % (e,)
    try:
        slv = cvc5.Solver()
        slv.setOption("tlimit-per", str(timeout_ms))
        slv.setOption("strings-exp", "true")
        slv.setLogic("ALL")
        parser = cvc5.InputParser(slv)
        # z3 prints (check-sat) at the end of to_smt2
        parser.setStringInput(cvc5.InputLanguage.SMT_LIB_2_6, smt2, "q")
        sm = parser.getSymbolManager()
        res = "unknown"
        while True:
            cmd = parser.nextCommand()
            if cmd.isNull():
                break
            out = cmd.invoke(slv, sm)
            out = str(out).strip()
            if out in ("sat", "unsat", "unknown"):
                res = out
        return res
    except Exception as e:
        return "error: %s" % (str(e)[:200],)
