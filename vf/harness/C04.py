"""C04 -- an already balanced reaction passes through unchanged as input-balanced (pipeline harness)."""
from __future__ import annotations

from vf import kf
from vf.engine_xh import Part
from vf.harness import pipecore as pc
from vf.world import pipe
from vf.world.pipe import W

PART = {}
H = "vf.harness.C04:"

ENCODES = pc.ENCODES_PIPE
STUBS = pc.STUBS_PIPE
ASSUMPTIONS = STUBS
BOUNDS = pc.BOUNDS_PIPE
OUTSIDE = pc.OUTSIDE_PIPE
EXPLANATION = (
    "The real Balancer pipeline (preprocess, validators, rule-based stage with the real matcher/imputer/constraint, "
    "MCSSearch.find, MCSBasedMethod.run/impute_reaction, reagent post-processing with the real curation code and "
    "shipped templates, second rule-based run, final validation, confidence filter) is executed symbolically with "
    "CrossHair+z3 on an abstract-chemistry world: molecules are tokens whose element counts and charges are solver "
    "variables and every environment outcome (MCS found/failed, merge result composition, functional group, "
    "confidence, threshold) is a solver variable. Oracle: if the two sides of the input have equal true composition and charge (computed from the world) the row is solved by 'input-balanced' and reaction == input_reaction; conversely a row labelled input-balanced had a balanced input and nothing was added. Each partition (reaction shape x MCS outcome class x "
    "charges) is explored to path exhaustion."
)
METHODS = ("input-balanced", "rule-based", "mcs-based")

def h_main(jC: int, jH: int, jO: int, jq: int, qC: int, qH: int, qO: int, qq: int,
      wC: int, wH: int, wO: int, wq: int, xC: int, xH: int, xO: int, xq: int,
      jjC: int, jjH: int, jjO: int, jjq: int, wwC: int, wwH: int, wwO: int, wwq: int,
      m1: int, m2: int, f1: int, f2: int, c1: int, c2: int, thr: int) -> bool:
    """
    post: _
    """
    a = dict(locals())
    r = pc.explore(PART, a, thr=thr if PART.get('sym_thr') else None)
    if r is None:
        return True
    out, stats = r
    tw = PART.get("twin")
    for row in out:
        parses, bal = pipe.truly_balanced(row["input_reaction"])
        if bal:
            if tw == "balanced":
                return False
            if not (row["solved"] and row.get("solved_by") == "input-balanced" and row["reaction"] == row["input_reaction"]):
                return False
        else:
            if tw == "unbalanced":
                return False
        if row.get("solved_by") == "input-balanced":
            if not (bal and row["reaction"] == row["input_reaction"] and row["solved"]):
                return False
    return True


def plan(tier):
    P = []
    for name, params, kind in pc.partitions(tier, "C04"):
        P.append(Part(H + "h_main", params, name, kind=kind, group="pipeline", timeout=1500, path_timeout=120))
    for tw in ["balanced", "unbalanced"]:
        P.append(Part(H + "h_main", {"shape": ["j>>q"], "E": ["C", "H"], "K": 2, "twin": tw, "fix": {"m1": 4 if tw == "mcs" else 0, "jq": 0, "qq": 0}}, "pipe.twin[%s]" % tw, kind="twin", group="pipeline", timeout=600))
    return P


def extra(tier):
    return {"obligations": [], "findings": pc.witness_findings("C04")}
