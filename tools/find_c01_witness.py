"""Search the shipped validation sets for rows the real pipeline marks solved although the two sides differ
(independent atom count with RDKit).  Development aid only: the witnesses it finds are recorded by hand in
vf/harness/pipecore.py (WITNESSES) and are replayed by the checks."""
import logging, sys, warnings, json, os
logging.disable(logging.CRITICAL); warnings.filterwarnings("ignore")
sys.path.insert(0, os.getcwd())
import pandas as pd
from rdkit import Chem, RDLogger
RDLogger.DisableLog("rdApp.*")
from synrbl import Balancer
import synrbl
print(synrbl.__file__)

def comp(s):
    m = Chem.AddHs(Chem.MolFromSmiles(s)); d = {}
    for a in m.GetAtoms(): d[a.GetAtomicNum()] = d.get(a.GetAtomicNum(), 0) + 1
    d["q"] = Chem.GetFormalCharge(m); return d

src = sys.argv[1]; out = sys.argv[2]
df = pd.read_csv(src)
col = "reaction" if "reaction" in df.columns else [c for c in df.columns if "react" in c.lower()][0]
rx = [r for r in df[col].tolist() if isinstance(r, str)]
b = Balancer(n_jobs=14, batch_size=200)
res = b.rebalance(rx, output_dict=True)
bad = []
for r in res:
    if r["solved"]:
        try:
            a, c = r["reaction"].split(">>")
            if comp(a) != comp(c): bad.append(r)
        except Exception as e:
            bad.append(dict(r, error=repr(e)))
json.dump(bad, open(out, "w"), indent=1, default=str)
print(len(rx), len(res), len(bad))
