"""C05 -- one result row per input row, in input order, for every input form."""
from __future__ import annotations

from vf import kf
from vf.engine_xh import Part
from vf.harness import pipecore as pc
from vf.world import pipe
from vf.world.pipe import W, Tok

import synrbl.balancing as _bal
from synrbl.SynUtils.batching import DataLoader, Dataset

PART = {}
H = "vf.harness.C05:"
KF_DROP = "C05-unparsable-row-dropped"
KF_BATCH = "C05-bad-separator-loses-batch"

ENCODES = pc.ENCODES_PIPE + [
    "synrbl.balancing:Balancer.rebalance",
    "synrbl.balancing:Balancer._Balancer__convert_to_dataset",
    "synrbl.balancing:Balancer._Balancer__rebalance_batch",
    "synrbl.SynUtils.batching:DataLoader.__next__",
    "synrbl.SynUtils.batching:Dataset.__init__",
]
STUBS = pc.STUBS_PIPE + ["traceback.print_exc in synrbl.balancing -> no-op (formatting is not the subject)"]
ASSUMPTIONS = STUBS
BOUNDS = [
    "batching kernel: n <= 6 opaque items, batch_size 1..n+1 (symbolic)",
    "rows: n <= 3 (quick: n <= 2 and n = 3 with a valid first row); each row symbolically one of 11 classes {valid, unparsable side, no '>>', 'A>B>C', empty string, empty product side, two '>>', missing value (None), valid rule-solvable, duplicate of row 0, atom-mapped}; batch_size symbolic in 1..n+1 or None; input as list of str, list of dict (with a pass-through column, with or without an own 'id' column) or Dataset",
]
OUTSIDE = pc.OUTSIDE_PIPE + ["CSV/JSON file readers and the CLI (file I/O on concrete data): the CLI column alignment is the consequence zip(inputs, outputs) of the row-count claim and inherits its findings"]
EXPLANATION = (
    "Balancer.rebalance with the real DataLoader/Dataset, __rebalance_batch and pipeline is executed symbolically "
    "(CrossHair+z3): the class of every row (valid / 7 malformed classes), the batch size and the input form are "
    "solver-chosen; oracle: len(out) == n and out[i].input_reaction is row i. The batching kernel is checked "
    "separately with symbolic n and batch_size."
)

TOK = ("j", "q", "w")
NCLASS = 11


def row_text(cls, t):
    if cls == 0:
        return t + ">>" + t
    if cls == 1:
        return t + ".x>>" + t  # x is not a molecule
    if cls == 2:
        return t + "." + t
    if cls == 3:
        return t + ">" + t + ">" + t
    if cls == 4:
        return ""
    if cls == 5:
        return t + ">>"
    if cls == 6:
        return t + ">>" + t + ">>" + t
    if cls == 7:
        return None
    if cls == 10:
        return t + ".[OH2:7]>>" + t + ".[OH2:7]"  # valid, atom-mapped (water carries a map number)
    if cls == 9:
        return TOK[0] + ">>" + TOK[0]  # the same reaction as a valid row 0 (duplicate inside the batch)
    return t + ">>" + t + ".O"  # valid and unbalanced (water on the product side): completed by the rule-based stage


class _NoTB:
    @staticmethod
    def print_exc(*a, **k):
        return None

    @staticmethod
    def format_exc(*a, **k):
        return ""


def _world():
    pipe.reset_world(["C", "H"])
    for t in TOK:
        W.tok[t] = Tok({"C": 1, "H": 2}, 0, True)
    W.tok["x"] = Tok({}, 0, False)
    W.fg = {}
    _bal.traceback = _NoTB


def h_rows(k0: int, k1: int, k2: int, bs: int) -> bool:
    """
    post: _
    """
    n = PART["n"]
    ks = [k0, k1, k2][:n]
    fixed = PART.get("fix") or {}
    for i in range(n):
        if ("k%d" % i) in fixed:
            ks[i] = fixed["k%d" % i]
    for k in ks:
        if not (0 <= k < NCLASS):
            return True
    if not (0 <= bs <= n + 1):
        return True
    _world()
    texts = [row_text(k, TOK[i]) for i, k in enumerate(ks)]
    form = PART.get("form", "str")
    if form == "str":
        if any(t is None for t in texts):
            return True  # a list of str has no missing values
        data = list(texts)
    elif form == "dict":
        data = [{"reaction": t, "tag": i} for i, t in enumerate(texts)]
    elif form == "dictid":
        # rows that carry their own 'id' column (values are not batch positions)
        data = [{"id": str(n - 1 - i), "reaction": t, "tag": i} for i, t in enumerate(texts)]
    else:
        data = Dataset([{"reaction": t, "tag": i} for i, t in enumerate(texts)])
    b = pipe.balancer(batch_size=None)
    batch_size = None if bs == 0 else bs
    out = b.rebalance(data, output_dict=True, batch_size=batch_size)
    tw = PART.get("twin")
    if tw == "rows":
        return len(out) == 0
    # expected rows
    drop_known = kf.active(KF_DROP)
    batch_known = kf.active(KF_BATCH)
    if batch_size is None:
        batches = [list(range(n))]
    else:
        batches = [list(range(s, min(n, s + batch_size))) for s in range(0, n, batch_size)]
    expect = []
    for bt in batches:
        if batch_known and any(ks[i] in (2, 3, 4, 6, 7) for i in bt):
            continue  # known: the whole batch is lost
        for i in bt:
            if drop_known and ks[i] == 1:
                continue  # known: the unparsable row is filtered out
            expect.append(i)
    if len(out) != len(expect):
        return False
    for row, i in zip(out, expect):
        if ks[i] == 10:
            # map numbers are removed from what is reported (C15: outputs never contain atom-map numbers)
            clean = TOK[i] + ".O>>" + TOK[i] + ".O"
            if row.get("input_reaction") != clean or row["reaction"] != clean or not row["solved"]:
                return False
            continue
        if row.get("input_reaction") != texts[i]:
            return False
        # each row describes that input: a balanced row is returned as given, the water-deficient row gets its water
        if ks[i] in (0, 9) and not (row["reaction"] == texts[i] and row["solved"]):
            return False
        if ks[i] == 8:
            sides = row["reaction"].split(">>")
            if not (row["solved"] and len(sides) == 2 and sorted(sides[0].split(".")) == sorted([TOK[i], "O"]) and sorted(sides[1].split(".")) == sorted([TOK[i], "O"])):
                return False
    return True


def h_loader(n: int, bs: int) -> bool:
    """
    pre: 0 <= n <= 6
    pre: 1 <= bs <= n + 1
    post: _
    """
    items = [("item", i) for i in range(n)]
    dl = DataLoader(Dataset(list(items)), batch_size=bs)
    got = []
    nb = 0
    sizes = []
    for batch in dl:
        nb += 1
        if nb > n + 2:
            return False  # does not terminate
        sizes.append(len(batch))
        got.extend(batch)
    if PART.get("twin"):
        return nb == 0
    if got != items:
        return False
    for s in sizes[:-1]:
        if s != bs:
            return False
    if sizes and sizes[-1] > bs:
        return False
    # at most one trailing empty batch (rebalance skips empty batches)
    if sum(1 for s in sizes if s == 0) > 1:
        return False
    return True


def plan(tier):
    P = []
    P.append(Part(H + "h_loader", {}, "loader[n<=6]", group="batching", timeout=600))
    P.append(Part(H + "h_loader", {"twin": 1}, "loader.twin", kind="twin", group="batching", timeout=300))
    forms = ["str", "dict", "dataset", "dictid"]
    for form in forms:
        P.append(Part(H + "h_rows", {"n": 1, "form": form}, "rows[n=1,%s]" % form, group="rows", timeout=900))
        for k0 in range(NCLASS):
            if form == "str" and k0 == 7:
                continue
            if tier != "thorough" and form != "dict" and k0 not in (0, 1, 2, 8, 10):
                continue
            P.append(Part(H + "h_rows", {"n": 2, "form": form, "fix": {"k0": k0}}, "rows[n=2,%s,k0=%d]" % (form, k0), group="rows", timeout=900))
    if tier == "thorough":
        for form in ("dict",):
            for k0 in range(NCLASS):
                for k1 in range(NCLASS):
                    P.append(Part(H + "h_rows", {"n": 3, "form": form, "fix": {"k0": k0, "k1": k1}}, "rows[n=3,%s,k0=%d,k1=%d]" % (form, k0, k1), group="rows", timeout=900))
    else:
        for k0, k1 in ((0, 1), (1, 0), (0, 2), (8, 1)):
            P.append(Part(H + "h_rows", {"n": 3, "form": "dict", "fix": {"k0": k0, "k1": k1}}, "rows[n=3,dict,k0=%d,k1=%d]" % (k0, k1), group="rows", timeout=900))
    P.append(Part(H + "h_rows", {"n": 2, "form": "dict", "twin": "rows"}, "rows.twin", kind="twin", group="rows", timeout=300))
    return P


def extra(tier):
    return {"obligations": [], "findings": pc.witness_findings("C05")}
