"""C07 -- element, hydrogen and charge accounting is exact.

Kernels on the real functions with unbounded symbolic integers (DESIGN.md 3/C07).
"""
from __future__ import annotations

from vf.engine_xh import Part
from vf.world import chem as W

import synrbl.SynProcessor.rsmi_decomposer as _dec
import synrbl.SynProcessor.check_carbon_balance as _ccb
import synrbl.SynMCSImputer.utils as _mu
from synrbl.SynProcessor.rsmi_decomposer import RSMIDecomposer
from synrbl.SynProcessor.rsmi_comparator import RSMIComparator
from synrbl.SynProcessor.rsmi_both_side_process import BothSideReact
from synrbl.SynProcessor.check_carbon_balance import CheckCarbonBalance

PART = {}
H = "vf.harness.C07:"

ENCODES = [
    "synrbl.SynProcessor.rsmi_decomposer:RSMIDecomposer.decompose",
    "synrbl.SynProcessor.rsmi_comparator:RSMIComparator.compare_dicts",
    "synrbl.SynProcessor.rsmi_comparator:RSMIComparator.check_keys",
    "synrbl.SynProcessor.rsmi_comparator:RSMIComparator.diff_dicts",
    "synrbl.SynProcessor.rsmi_both_side_process:BothSideReact.enforce_product_side",
    "synrbl.SynProcessor.rsmi_both_side_process:BothSideReact.reverse_values_if_negative_except_Q",
    "synrbl.SynProcessor.check_carbon_balance:CheckCarbonBalance.count_atoms",
    "synrbl.SynProcessor.check_carbon_balance:CheckCarbonBalance.process_reaction",
    "synrbl.SynMCSImputer.utils:is_carbon_balanced",
]
EXPLANATION = (
    "Bounded symbolic execution (CrossHair+z3) of the real accounting kernels: decompose on a fake "
    "molecule with symbolic atomic numbers/charge against RDKit's periodic table; compare_dicts, diff_dicts, "
    "enforce_product_side, reverse_values_if_negative_except_Q on dictionaries with symbolic key presence and "
    "unbounded symbolic integer values against a vector reference; carbon label with symbolic per-atom element flags. "
    "Every partition is explored to path exhaustion (CrossHair 'Confirmed over all paths')."
)
BOUNDS = [
    "decompose: 1 symbolic-Z atom (Z in 1..118, whole table) + 0..3 H atoms, unbounded charge; 2-3 atoms with Z from {1,6,8,17,87,92} for counting",
    "compare/diff/enforce/reverse: keys {C,H,O,N}+Q on thorough, {C,H,O}+Q on quick, symbolic presence, unbounded integer values (present element >= 1, present Q != 0)",
    "carbon label: reactants 'A.B', products 'A.C', 2 atoms per component with symbolic is-carbon flags (counts 0..4 per side)",
]
STUBS = [
    "Chem.MolFromSmiles/AddHs/GetFormalCharge in rsmi_decomposer -> fake molecule whose atom list already contains every hydrogen (AddHs contract)",
    "Chem.MolFromSmiles in check_carbon_balance, rdmolfiles.MolFromSmiles in SynMCSImputer.utils -> fake molecule; a mixture's atoms are the concatenation of its components' atoms (additivity contract)",
]
OUTSIDE = [
    "that RDKit's AddHs enumerates every hydrogen and that atoms of a mixture are the union of its components' atoms (library contract)",
    "Z = 0 dummy atoms ('*' shares the key 'Q' with the charge; not a closed-shell molecule)",
    "the direction the comparator assigns to a pure charge imbalance (recorded, not judged)",
]
ASSUMPTIONS = STUBS + ["CrossHair's path exhaustion claim; z3 integer arithmetic"]

ELEMS = ["C", "H", "O", "N"]


# ---------------------------------------------------------------- decompose
def h_decomp_table(z: int, nh: int, q: int) -> bool:
    """
    pre: PART.get("lo", 1) <= z <= PART.get("hi", 118)
    pre: 0 <= nh <= 3
    post: _
    """
    atoms = [W.FakeAtom(z)] + [W.FakeAtom(1) for _ in range(nh)]
    _dec.Chem = W.SingleMolChem(W.FakeMol(atoms, q))
    out = RSMIDecomposer.decompose("X")
    exp = {}
    exp[W.REF_SYMBOLS[z]] = 1
    if nh > 0:
        exp["H"] = exp.get("H", 0) + nh
    if q != 0:
        exp["Q"] = q
    if PART.get("twin"):
        return not (len(out) == 3)
    return out == exp


_ZSET = [1, 6, 8, 17, 87, 92]


def h_decomp_count(i0: int, i1: int, i2: int, q: int) -> bool:
    """
    pre: 0 <= i0 < 6 and 0 <= i1 < 6 and 0 <= i2 < 6
    pre: PART.get("i0") is None or i0 == PART["i0"]
    post: _
    """
    n = PART.get("n", 3)
    zs = [_ZSET[i] for i in (i0, i1, i2)[:n]]
    _dec.Chem = W.SingleMolChem(W.FakeMol([W.FakeAtom(z) for z in zs], q))
    out = RSMIDecomposer.decompose("X")
    exp = {}
    for z in zs:
        s = W.REF_SYMBOLS[z]
        exp[s] = exp.get(s, 0) + 1
    if q != 0:
        exp["Q"] = q
    if PART.get("twin"):
        return not (len(out) == 2 and "Q" in out)
    return out == exp


def h_decomp_invalid(q: int) -> bool:
    """
    post: _
    """
    _dec.Chem = W.SingleMolChem(None)
    return RSMIDecomposer.decompose("X") == {}


# ---------------------------------------------------------------- dict kernels
def _mk(nk, flags, vals):
    """dict over ELEMS[:nk] + Q from presence flags / values; None if outside the
    representation invariant of decompose (present element >= 1, present Q != 0)."""
    d = {}
    for i in range(nk):
        if flags[i]:
            if vals[i] < 1:
                return None
            d[ELEMS[i]] = vals[i]
    if flags[4]:
        if vals[4] == 0:
            return None
        d["Q"] = vals[4]
    return d


def _vec(nk, d):
    return [d.get(ELEMS[i], 0) for i in range(nk)], d.get("Q", 0)


def h_compare(
    a0: bool, a1: bool, a2: bool, a3: bool, a4: bool, x0: int, x1: int, x2: int, x3: int, x4: int,
    b0: bool, b1: bool, b2: bool, b3: bool, b4: bool, y0: int, y1: int, y2: int, y3: int, y4: int,
) -> bool:
    """
    post: _
    """
    nk = PART.get("nk", 3)
    if nk < 4 and (a3 or b3):
        return True
    r = _mk(nk, (a0, a1, a2, a3, a4), (x0, x1, x2, x3, x4))
    p = _mk(nk, (b0, b1, b2, b3, b4), (y0, y1, y2, y3, y4))
    if r is None or p is None:
        return True
    verdict = RSMIComparator.compare_dicts(r, p)
    tw = PART.get("twin")
    if tw:
        return verdict != tw
    rv, rq = _vec(nk, r)
    pv, pq = _vec(nk, p)
    eq = True
    ge = True
    le = True
    for i in range(nk):
        if rv[i] != pv[i]:
            eq = False
        if rv[i] < pv[i]:
            ge = False
        if rv[i] > pv[i]:
            le = False
    if rq != pq:
        return verdict != "Balance" and verdict in ("Products", "Reactants", "Both")
    if eq:
        return verdict == "Balance"
    if ge:
        return verdict == "Products"
    if le:
        return verdict == "Reactants"
    return verdict == "Both"


def h_diff(
    a0: bool, a1: bool, a2: bool, a3: bool, a4: bool, x0: int, x1: int, x2: int, x3: int, x4: int,
    b0: bool, b1: bool, b2: bool, b3: bool, b4: bool, y0: int, y1: int, y2: int, y3: int, y4: int,
) -> bool:
    """
    post: _
    """
    nk = PART.get("nk", 3)
    if nk < 4 and (a3 or b3):
        return True
    r = _mk(nk, (a0, a1, a2, a3, a4), (x0, x1, x2, x3, x4))
    p = _mk(nk, (b0, b1, b2, b3, b4), (y0, y1, y2, y3, y4))
    if r is None or p is None:
        return True
    r0 = dict(r)
    p0 = dict(p)
    out = RSMIComparator.diff_dicts(r, p)
    if PART.get("twin"):
        return not (len(out) == 2)
    if r != r0 or p != p0:
        return False  # inputs must not be mutated
    rv, rq = _vec(nk, r)
    pv, pq = _vec(nk, p)
    n = 0
    for i in range(nk):
        d = rv[i] - pv[i]
        if d < 0:
            d = -d
        if d == 0:
            if ELEMS[i] in out:
                return False
        else:
            n += 1
            if out.get(ELEMS[i]) != d:
                return False
    dq = rq - pq
    if dq == 0:
        if "Q" in out:
            return False
    else:
        n += 1
        oq = out.get("Q", 0)
        if oq != dq and oq != -dq:
            return False
        # a charge carried by one side only keeps its sign (this is the charge the completion must bring: the rule
        # solver subtracts rule charges from it); only when both sides are charged is the magnitude reported
        if ("Q" in r) != ("Q" in p):
            if oq != (r["Q"] if "Q" in r else p["Q"]):
                return False
    return len(out) == n


def h_enforce(
    a0: bool, a1: bool, a2: bool, a3: bool, x0: int, x1: int, x2: int, x3: int, x4: int,
    b0: bool, b1: bool, b2: bool, b3: bool, y0: int, y1: int, y2: int, y3: int, y4: int,
) -> bool:
    """
    post: _
    """
    nk = PART.get("nk", 3)
    if nk < 4 and (a3 or b3):
        return True
    # BothSideReact.__init__ guarantees an explicit Q (possibly 0) on both sides
    r = _mk(nk, (a0, a1, a2, a3, False), (x0, x1, x2, x3, 1))
    p = _mk(nk, (b0, b1, b2, b3, False), (y0, y1, y2, y3, 1))
    if r is None or p is None:
        return True
    r["Q"] = x4
    p["Q"] = y4
    out = BothSideReact.enforce_product_side(r, p)
    if PART.get("twin"):
        return not (len(out) == 2 and "Q" in out)
    n = 0
    for k in ELEMS[:nk] + ["Q"]:
        d = r.get(k, 0) - p.get(k, 0)
        if d == 0:
            if k in out:
                return False
        else:
            n += 1
            if out.get(k) != d:
                return False
    if len(out) != n:
        return False
    # side selection on the difference
    d0 = dict(out)
    new, label = BothSideReact.reverse_values_if_negative_except_Q(out)
    if label == "Products":
        # p + new == r in every element and in charge, element entries positive
        for k in ELEMS[:nk] + ["Q"]:
            if p.get(k, 0) + new.get(k, 0) != r.get(k, 0):
                return False
        return all(v > 0 for k, v in new.items() if k != "Q")
    if label == "Reactants":
        for k in ELEMS[:nk] + ["Q"]:
            if r.get(k, 0) + new.get(k, 0) != p.get(k, 0):
                return False
        return all(v > 0 for k, v in new.items() if k != "Q")
    return label == "Both" and new == d0


def h_enforce_twin_label(
    a0: bool, a1: bool, x0: int, x1: int, x4: int, b0: bool, b1: bool, y0: int, y1: int, y4: int
) -> bool:
    """
    post: _
    """
    r = _mk(2, (a0, a1, False, False, False), (x0, x1, 1, 1, 1))
    p = _mk(2, (b0, b1, False, False, False), (y0, y1, 1, 1, 1))
    if r is None or p is None:
        return True
    r["Q"] = x4
    p["Q"] = y4
    out = BothSideReact.enforce_product_side(r, p)
    new, label = BothSideReact.reverse_values_if_negative_except_Q(out)
    return label != PART["twin"]


# ---------------------------------------------------------------- carbon label
class _TokChem:
    def __init__(self, mols):
        self.mols = mols

    def MolFromSmiles(self, smiles, *a, **k):
        atoms = []
        for t in smiles.split("."):
            m = self.mols.get(t)
            if m is None:
                return None
            atoms.extend(m.atoms)
        return W.FakeMol(atoms)


def _flag_world(fa0, fa1, fb0, fb1, fc0, fc1):
    def mol(f0, f1):
        return W.FakeMol([W.FakeAtom(6 if f0 else 8, sym="C" if f0 else "O"), W.FakeAtom(6 if f1 else 8, sym="C" if f1 else "O")])

    mols = {"A": mol(fa0, fa1), "B": mol(fb0, fb1), "D": mol(fc0, fc1)}
    cnt = {
        "A": (1 if fa0 else 0) + (1 if fa1 else 0),
        "B": (1 if fb0 else 0) + (1 if fb1 else 0),
        "D": (1 if fc0 else 0) + (1 if fc1 else 0),
    }
    return mols, cnt


def h_carbon(fa0: bool, fa1: bool, fb0: bool, fb1: bool, fc0: bool, fc1: bool) -> bool:
    """
    post: _
    """
    mols, cnt = _flag_world(fa0, fa1, fb0, fb1, fc0, fc1)
    _ccb.Chem = _TokChem(mols)
    rs, ps = PART.get("rxn", ["A.B", "A.D"])
    cache = {}
    rxn = {"r": rs + ">>" + ps, "keep": 7}
    out = CheckCarbonBalance.process_reaction(rxn, "r", ">>", "C", cache)
    label = out["carbon_balance_check"]
    if PART.get("twin"):
        return label != PART["twin"]
    rc = sum(cnt[t] for t in rs.split("."))
    pc = sum(cnt[t] for t in ps.split("."))
    exp = "balanced" if rc == pc else ("products" if rc > pc else "reactants")
    if label != exp:
        return False
    # the cache never changes a count, the input row is not mutated
    for t, v in cache.items():
        if cnt[t] != v:
            return False
    if rxn != {"r": rs + ">>" + ps, "keep": 7} or out["keep"] != 7:
        return False
    # second evaluation through the now warm cache gives the same label
    out2 = CheckCarbonBalance.process_reaction(rxn, "r", ">>", "C", cache)
    if out2["carbon_balance_check"] != exp:
        return False
    # is_carbon_balanced agrees
    _mu.rdmolfiles = _TokChem(mols)
    return _mu.is_carbon_balanced(rs + ">>" + ps) == (rc == pc)


def h_carbon_history(fa0: bool, fa1: bool, fb0: bool, fb1: bool) -> bool:
    """
    post: _
    """
    # a checker for another atom type runs first over the same molecules (same process), then a fresh carbon
    # checker: its labels must be those of the true carbon counts (no state may leak between checker instances)
    from vf.world import pipe as _pipe

    mols, cnt = _flag_world(fa0, fa1, fb0, fb1, True, False)
    _ccb.Chem = _TokChem(mols)
    _ccb.Parallel = _pipe.SeqParallel
    _ccb.delayed = _pipe.seq_delayed
    rs, ps = PART.get("rxn", ["A.D", "B"])
    rows = [{"r": rs + ">>" + ps}]
    first = CheckCarbonBalance([dict(r) for r in rows], rsmi_col="r", symbol=">>", atom_type=PART.get("first", "O"), n_jobs=1)
    first.check_carbon_balance()
    second = CheckCarbonBalance([dict(r) for r in rows], rsmi_col="r", symbol=">>", atom_type="C", n_jobs=1)
    out = second.check_carbon_balance()
    if PART.get("twin"):
        return out[0]["carbon_balance_check"] != "balanced"
    rc = sum(cnt[t] for t in rs.split("."))
    pc = sum(cnt[t] for t in ps.split("."))
    exp = "balanced" if rc == pc else ("products" if rc > pc else "reactants")
    return len(out) == 1 and out[0]["carbon_balance_check"] == exp


def plan(tier):
    nk = 4 if tier == "thorough" else 3
    P = []
    for lo in range(1, 119, 8):
        hi = min(118, lo + 7)
        P.append(Part(H + "h_decomp_table", {"lo": lo, "hi": hi}, "decompose.table[Z=%d..%d]" % (lo, hi), group="decompose", timeout=600))
    P.append(Part(H + "h_decomp_table", {"twin": 1}, "decompose.table.twin", kind="twin", group="decompose", timeout=120))
    P.append(Part(H + "h_decomp_count", {"n": 2}, "decompose.count[n=2]", group="decompose", timeout=600))
    for i0 in range(6):
        P.append(Part(H + "h_decomp_count", {"n": 3, "i0": i0}, "decompose.count[n=3,Z0=%d]" % _ZSET[i0], group="decompose", timeout=600))
    P.append(Part(H + "h_decomp_count", {"n": 1, "twin": 1}, "decompose.count.twin", kind="twin", group="decompose"))
    P.append(Part(H + "h_decomp_invalid", {}, "decompose.invalid", group="decompose"))
    P.append(Part(H + "h_compare", {"nk": nk}, "compare_dicts[%d keys+Q]" % nk, group="compare", timeout=1800))
    for tw in ("Balance", "Products", "Reactants", "Both"):
        P.append(Part(H + "h_compare", {"nk": 2, "twin": tw}, "compare_dicts.twin[%s]" % tw, kind="twin", group="compare"))
    P.append(Part(H + "h_diff", {"nk": nk}, "diff_dicts[%d keys+Q]" % nk, group="diff", timeout=1800))
    P.append(Part(H + "h_diff", {"nk": 2, "twin": 1}, "diff_dicts.twin", kind="twin", group="diff"))
    P.append(Part(H + "h_enforce", {"nk": nk}, "enforce_product_side+reverse[%d keys+Q]" % nk, group="both-side", timeout=1800))
    for tw in ("Products", "Reactants", "Both"):
        P.append(Part(H + "h_enforce_twin_label", {"twin": tw}, "reverse.twin[%s]" % tw, kind="twin", group="both-side"))
    rxns = [["A.B", "A.D"], ["A", "B"], ["A.A", "A"], ["A.B.D", "D.A"]]
    if tier == "thorough":
        rxns += [["A.B", "B.A"], ["A", "A.B.D"], ["B.B", "D.D"]]
    for rx in rxns:
        P.append(Part(H + "h_carbon", {"rxn": rx}, "carbon_label[%s>>%s]" % tuple(rx), group="carbon"))
    for first in ("O", "C"):
        P.append(Part(H + "h_carbon_history", {"first": first}, "carbon_label.history[%s-checker first]" % first, group="carbon"))
    P.append(Part(H + "h_carbon_history", {"twin": 1}, "carbon_label.history.twin", kind="twin", group="carbon"))
    for tw in ("balanced", "products", "reactants"):
        P.append(Part(H + "h_carbon", {"twin": tw}, "carbon_label.twin[%s]" % tw, kind="twin", group="carbon"))
    return P


def _formula_comp(mol):
    """Independent composition of an RDKit molecule from its molecular formula string (Hill notation + charge)."""
    import re as _re
    from rdkit.Chem.rdMolDescriptors import CalcMolFormula

    f = CalcMolFormula(mol)
    m = _re.match(r"^((?:[A-Z][a-z]?\d*)*)([+-]\d*)?$", f)
    comp = {}
    for sym, n in _re.findall(r"([A-Z][a-z]?)(\d*)", m.group(1)):
        comp[sym] = comp.get(sym, 0) + (int(n) if n else 1)
    q = 0
    if m.group(2):
        sign = 1 if m.group(2)[0] == "+" else -1
        q = sign * (int(m.group(2)[1:]) if len(m.group(2)) > 1 else 1)
    if q:
        comp["Q"] = q
    return comp


CONTRACT_SMILES = [
    "CCO", "[H][H]", "[2H]Cl", "[H+]", "[H-]", "[OH-]", "[NH4+]", "c1cc[nH]c1", "C[C@H](N)C(=O)O", "[U]", "[Th]", "[Na+].[Cl-]",
    "CC(=O)[O-].[Na+]", "O=[Mn](=O)(=O)O[K]", "[13CH4]", "C[N+](C)(C)C.[I-]", "O", "OO", "[O]", "[H]", "B(O)(O)O", "[BH4-]", "[AlH4-]",
    "c1ccccc1", "C1=CC=CC=C1", "[Cu+2]", "[O-]S(=O)(=O)[O-]", "N#N", "[N-]=[N+]=[N-]",
]


def _contract_table():
    """The stub worlds assume 'decompose(s) = true composition of s, hydrogens and charge included'.  That contract of
    the real function with real RDKit is validated on a fixed table (finite concrete check, not a solver result):
    the rule-database and template compounds plus a list of hydrogen/charge/isotope edge cases."""
    import time as _t

    import rdkit.Chem as C
    from rdkit import RDLogger

    RDLogger.DisableLog("rdApp.*")
    from vf.world import pipe as _p

    t0 = _t.time()
    _dec.Chem = C
    smiles = set(CONTRACT_SMILES)
    try:
        for r in _p.shipped_rules():
            smiles.add(r["smiles"])
    except Exception:
        pass
    bad = []
    n = 0
    for smi in sorted(smiles):
        mol = C.MolFromSmiles(smi)
        if mol is None:
            continue
        n += 1
        want = _formula_comp(mol)
        got = RSMIDecomposer.decompose(smi)
        if got != want:
            bad.append((smi, got, want))
    return {"name": "decompose.real-rdkit-contract-table", "engine": "table", "group": "decompose", "queries": n,
            "status": "violation" if bad else "discharged", "solver_s": round(_t.time() - t0, 3),
            "detail": "%d SMILES: real decompose == composition from RDKit's molecular formula; mismatches: %r" % (n, bad[:4]),
            "replay_payload": {"bad": [b[0] for b in bad]}}


def replay(data):
    ob = _contract_table()
    return {"reproduced": ob["status"] == "violation", "detail": ob["detail"]}


def extra(tier):
    """Level-2 witness on the real code + real RDKit for the repaired heavy-element defect."""
    import importlib
    import rdkit.Chem

    _dec.Chem = rdkit.Chem
    a = RSMIDecomposer.decompose("[U]")
    b = RSMIDecomposer.decompose("[Th]")
    same = a == b
    return {
        "obligations": [_contract_table()],
        "findings": [
            {
                "id": "C07-heavy-elements-collapse",
                "reproduced": bool(same),
                "what": "RSMIDecomposer.decompose('[U]') == decompose('[Th]') (%r)" % (a,),
                "witness": {"call": "RSMIDecomposer.decompose", "inputs": ["[U]", "[Th]"], "outputs": [a, b]},
            }
        ],
    }
