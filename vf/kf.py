"""Known findings (DESIGN.md 2.5).

/verif/known_findings.txt, never written at run time.  One entry per line:

    known: property=<id> id=<finding-id> <what fails>
    fixed: property=<id> id=<finding-id> <commit> <what failed>

A *known* entry excludes its trigger region from the original obligations of
the property (the region predicate lives in the harness, keyed by finding-id),
adds the obligation "inside the region the code shows exactly the specified
deviation", and has one concrete witness replayed against the real code: if
the witness reproduces, ``KNOWN-FINDING: property=<id> <what fails>`` is
printed.  A *fixed* entry suppresses nothing: the region is not excluded and a
reproducing witness is a VIOLATION.
"""
from __future__ import annotations

import os
import re
from typing import Dict, List

PATH = os.path.join(os.path.dirname(os.path.dirname(os.path.abspath(__file__))), "known_findings.txt")

_cache = None


def entries() -> List[Dict[str, str]]:
    global _cache
    if _cache is not None:
        return _cache
    out = []
    if os.path.exists(PATH):
        for line in open(PATH, encoding="utf-8"):
            line = line.strip()
            if not line or line.startswith("#"):
                continue
            m = re.match(r"^(known|fixed):\s+property=(\S+)\s+id=(\S+)\s+(.*)$", line)
            if not m:
                continue
            out.append({"kind": m.group(1), "property": m.group(2), "id": m.group(3), "what": m.group(4)})
    _cache = out
    return out


def active(fid: str) -> bool:
    """True iff finding `fid` is listed as *known* (its region is then excluded).
    VERIF_KF_IGNORE=id,id (self-test only) treats the named entries as not listed."""
    if fid in (os.environ.get("VERIF_KF_IGNORE") or "").split(","):
        return False
    return any(e["id"] == fid and e["kind"] == "known" for e in entries())


def what(fid: str) -> str:
    for e in entries():
        if e["id"] == fid:
            return e["what"]
    return ""


def listed(fid: str) -> str:
    if fid in (os.environ.get("VERIF_KF_IGNORE") or "").split(","):
        return ""
    for e in entries():
        if e["id"] == fid:
            return e["kind"]
    return ""
