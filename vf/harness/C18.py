"""C18 -- run statistics agree with the returned rows (pipeline harness through Balancer.rebalance)."""
from __future__ import annotations

from vf import kf
from vf.engine_xh import Part
from vf.harness import pipecore as pc
from vf.world import pipe
from vf.world.pipe import W

PART = {}
H = "vf.harness.C18:"

ENCODES = pc.ENCODES_PIPE + ["synrbl.balancing:Balancer.rebalance", "synrbl.balancing:Balancer._Balancer__rebalance_batch", "synrbl.balancing:merge_stats"]
STUBS = pc.STUBS_PIPE
ASSUMPTIONS = STUBS
BOUNDS = pc.BOUNDS_PIPE + ["two-row runs: row 1 symbolic, row 2 one fixed representative per outcome class (input-balanced, rule-based, mcs solved, mcs failed, carbon deficit), both orders; batch_size None (one batch) or 1 (two batches)"]
OUTSIDE = pc.OUTSIDE_PIPE + ["the .stats file writing and success-rate printing of the CLI (I/O and formatting)"]
EXPLANATION = (
    "Balancer.rebalance(..., stats=...) with the real pipeline is executed symbolically (CrossHair+z3) on the "
    "abstract-chemistry world; the harness recomputes the five relations of the statement from the returned rows and "
    "from a ghost record of which rows entered the MCS stage (taken at the ensemble_mcs stub boundary): "
    "reaction_cnt = n, balanced_cnt = #input-balanced, confident_cnt = #(solved and mcs-based), mcs_applied = "
    "#unsolved-before-MCS, rb_solved <= rb_applied, mcs_solved <= mcs_applied, and each solved count >= the rows "
    "finally attributed to its method."
)

def h_main(jC: int, jH: int, jO: int, jq: int, qC: int, qH: int, qO: int, qq: int,
      wC: int, wH: int, wO: int, wq: int, xC: int, xH: int, xO: int, xq: int,
      jjC: int, jjH: int, jjO: int, jjq: int, wwC: int, wwH: int, wwO: int, wwq: int,
      m1: int, m2: int, f1: int, f2: int, c1: int, c2: int, thr: int) -> bool:
    """
    post: _
    """
    a = dict(locals())
    bs = PART.get("batch_size")
    r = pc.explore(PART, a, thr=thr if PART.get("sym_thr") else None, via_rebalance=True, batch_size=bs)
    if r is None:
        return True
    out, st = r
    tw = PART.get("twin")
    n = len(pc.input_rows(PART))
    if tw == "stats":
        return not st
    if st.get("reaction_cnt") != n:
        return False  # the reaction count is the number of input rows, also when a row is dropped (C05 findings)
    if len(out) != n:
        return True  # row loss itself is C05's subject; the remaining relations are stated over the returned rows
    def cnt(pred):
        k = 0
        for row in out:
            if pred(row):
                k += 1
        return k
    if st.get("reaction_cnt") != n:
        return False
    if st.get("balanced_cnt") != cnt(lambda r: r.get("solved_by") == "input-balanced"):
        return False
    if st.get("confident_cnt") != cnt(lambda r: bool(r["solved"]) and r.get("solved_by") == "mcs-based"):
        return False
    if st.get("mcs_applied") != len(W.ghost.get("mcs_started", [])):
        return False
    if st.get("rb_solved") > st.get("rb_applied") or st.get("mcs_solved") > st.get("mcs_applied"):
        return False
    if st.get("rb_solved") < cnt(lambda r: bool(r["solved"]) and r.get("solved_by") == "rule-based"):
        return False
    if st.get("mcs_solved") < cnt(lambda r: bool(r["solved"]) and r.get("solved_by") == "mcs-based"):
        return False
    return True


def plan(tier):
    P = []
    for name, params, kind in pc.partitions(tier, "C18"):
        if "m=2" in name or "m=1" in name or "pipe2[" in name:
            continue
        P.append(Part(H + "h_main", params, name, kind=kind, group="pipeline-1row", timeout=1500, path_timeout=120))
    for name, params, kind in pc.partitions2(tier, "C18"):
        for bs in ((None, 1) if tier == "thorough" else (None,)):
            p2 = dict(params, batch_size=bs)
            P.append(Part(H + "h_main", p2, name.replace("]", ",bs=%s]" % bs), kind=kind, group="pipeline-2rows", timeout=1500, path_timeout=120))
    # a batch in which one row does not parse (it is dropped: known C05 finding): reaction_cnt still counts it
    for order in (0, 1):
        fx = dict(pc.ROW2["input-balanced"])
        fx.update({"m1": 0, "jq": 0, "qq": 0})
        P.append(Part(H + "h_main", {"shape": ["j>>q", "w>>x"], "order": order, "E": ["C", "H"], "K": 2, "invalid": ["w"], "fix": fx}, "pipe2[row w>>x unparsable|order=%d]" % order, group="pipeline-2rows", timeout=1500))
    P.append(Part(H + "h_main", {"shape": ["j>>q"], "E": ["C", "H"], "K": 2, "twin": "stats", "fix": {"m1": 0, "jq": 0, "qq": 0}}, "pipe.twin[stats]", kind="twin", group="pipeline-1row", timeout=600))
    return P


def extra(tier):
    return {"obligations": [], "findings": pc.witness_findings("C18")}
